// C16 — map coordinates address distinct tiles; tile accessors are faithful.
#include "map_common.h"
#include "Stream/MemoryReader.h"
#include "Stream/DynamicMemoryWriter.h"
#include <climits>
#include <memory>

using namespace verif;
using namespace OP2Utility;
using refmap::LMap;
const char* const PROP_ID = "C16";

namespace {
Map load(const LMap& m) {
	std::vector<uint8_t> b = refmap::encode(m);
	Stream::MemoryReader r(b.data(), b.size());
	return Map::ReadMap(r);
}
std::vector<uint8_t> write_map(const Map& m) { Stream::DynamicMemoryWriter w; m.Write(w); std::vector<uint8_t> out(w.Length()); auto r = w.GetReader(); r.Read(out.data(), out.size()); return out; }

// inverse of the format's block order: tile index -> coordinate
void coord_of(size_t i, uint32_t h, uint64_t& x, uint64_t& y) { uint64_t block = i / (32ull * h); y = (i / 32) % h; x = block * 32 + i % 32; }

void map_case(unsigned lg, uint32_t h, uint64_t seed, bool fullBijection, Stats& st, Tape* t) {
	uint64_t W = uint64_t(1) << lg; size_t n = size_t(W * h);
	LMap m; m.lgWidth = lg; m.height = h; m.versionTag = 0x1011;
	m.tiles.resize(n); uint64_t s = seed | 1;
	for (size_t i = 0; i < n; ++i) { s ^= s << 13; s ^= s >> 7; s ^= s << 17; m.tiles[i] = (uint32_t(s >> 20) & ~uint32_t(0xFFE0)) | (uint32_t((i + seed) % 2048) << 5); }   // mapping index cycles through all 2048 values
	for (unsigned i = 0; i < 2048; ++i) m.mappings.push_back({uint16_t(i % 3 == 0 ? (i / 3) % 10 : i * 31 + 7), uint16_t(i % 5 == 0 ? i % 40 : 65535 - i * 3), uint16_t(i & 7), uint16_t(i >> 4)});
	// tileset sources the mapping entries may or may not point into: empty slots in front of, between and behind named ones, tile counts below,
	// at and above the image indices in use (the accessors report the mapping entry, whatever the source list says)
	{ unsigned ns = unsigned((seed >> 7) % 10); for (unsigned k = 0; k < ns; ++k) { refmap::Source src; if (((seed >> (12 + k)) & 1) == 0) { src.name = "ts" + std::to_string(k); const uint32_t counts[6] = {1, 7, 39, 40, 432, 70000}; src.numTiles = counts[(seed >> (24 + 3 * k)) % 6]; } m.sources.push_back(src); } }
	Map map = load(m);
	std::string ctx = "[width 2^" + std::to_string(lg) + " height " + std::to_string(h) + "]";
	V_CHECK(map.WidthInTiles() == W && map.HeightInTiles() == h && map.TileCount() == n, ctx << " reported dimensions " << map.WidthInTiles() << "x" << map.HeightInTiles() << " count " << map.TileCount());
	// copies address tiles like the original: copy-constructed, copy-assigned over a map of another shape, move-constructed
	{ Map c1 = map; LMap other; other.lgWidth = 5; other.height = 2; other.versionTag = 0x1011; other.tiles.assign(64, 0); Map c2 = load(other); c2 = c1; Map c3 = std::move(c1);
	  for (Map* c : {&c2, &c3}) { V_CHECK(c->WidthInTiles() == W && c->HeightInTiles() == h && c->TileCount() == n, ctx << " a copied map reports other dimensions");
	    for (uint64_t k = 0; k < 24; ++k) { uint64_t x = (k * 0x9E3779B97F4A7C15ULL >> 20) % W, y = (k * 0xC2B2AE3D27D4EB4FULL >> 24) % h; uint32_t w = m.tiles[refmap::tile_index(x, y, h)];
	      V_CHECK(static_cast<uint32_t>(c->GetCellType(x, y)) == refmap::tile_cell(w) && c->GetTileMappingIndex(x, y) == refmap::tile_mapping(w), ctx << " a copied map addresses (" << x << "," << y << ") differently"); } } }
	// getters == fields of the raw word at the independently computed index, for every coordinate; coordinates cover the array exactly once
	std::vector<uint8_t> seen(n, 0);
	for (uint64_t y = 0; y < h; ++y) for (uint64_t x = 0; x < W; ++x) {
		size_t idx = refmap::tile_index(x, y, h);
		V_CHECK(idx < n, ctx << " formula index out of range");
		V_CHECK(!seen[idx], ctx << " two coordinates share tile " << idx); seen[idx] = 1;
		uint32_t w = m.tiles[idx];
		V_CHECK(static_cast<uint32_t>(map.GetCellType(x, y)) == refmap::tile_cell(w), ctx << " GetCellType(" << x << "," << y << ") = " << static_cast<int>(map.GetCellType(x, y)) << ", the tile word's bits 0-4 hold " << refmap::tile_cell(w));
		V_CHECK(map.GetTileMappingIndex(x, y) == refmap::tile_mapping(w), ctx << " GetTileMappingIndex(" << x << "," << y << ") = " << map.GetTileMappingIndex(x, y) << " != bits 5-15 = " << refmap::tile_mapping(w));
		V_CHECK(map.GetLavaPossible(x, y) == refmap::tile_lava_possible(w), ctx << " GetLavaPossible(" << x << "," << y << ")");
		uint32_t mi = refmap::tile_mapping(w);
		V_CHECK(map.GetTilesetIndex(x, y) == m.mappings[mi][0], ctx << " GetTilesetIndex(" << x << "," << y << ") = " << map.GetTilesetIndex(x, y) << " != mapping entry " << mi << " tileset " << m.mappings[mi][0]);
		V_CHECK(map.GetImageIndex(x, y) == m.mappings[mi][1], ctx << " GetImageIndex(" << x << "," << y << ") = " << map.GetImageIndex(x, y) << " != mapping entry " << mi << " image " << m.mappings[mi][1]);
	}
	// the same after the source list was compacted (empty slots removed): the tiles and mapping entries are untouched, so are the accessors' answers
	{ Map tm = map; tm.TrimTilesetSources();
	  size_t named = 0; for (auto& sc : m.sources) if (!sc.name.empty()) ++named;
	  V_CHECK(tm.tilesetSources.size() == named, ctx << " TrimTilesetSources left " << tm.tilesetSources.size() << " sources, " << named << " are named");
	  for (uint64_t k = 0; k < 4096 && k < n; ++k) { size_t i = size_t((k * 2654435761ull) % n); uint64_t x, y; coord_of(i, h, x, y); uint32_t mi = refmap::tile_mapping(m.tiles[i]);
	    V_CHECK(tm.GetTilesetIndex(x, y) == m.mappings[mi][0] && tm.GetImageIndex(x, y) == m.mappings[mi][1] && tm.GetTileMappingIndex(x, y) == mi, ctx << " after TrimTilesetSources the accessors at (" << x << "," << y << ") report tileset " << tm.GetTilesetIndex(x, y) << " image " << tm.GetImageIndex(x, y) << ", the mapping entry " << mi << " holds " << m.mappings[mi][0] << " / " << m.mappings[mi][1]); }
	  st.cls("after_trim:" + std::to_string(named) + "_of_" + std::to_string(m.sources.size())); }
	// bijection through the setter: spell each coordinate's linear id in base 32 into the cell-type field, read it back from tiles[]
	if (fullBijection) {
		for (unsigned round = 0; round < 4; ++round) {
			for (uint64_t y = 0; y < h; ++y) for (uint64_t x = 0; x < W; ++x) map.SetCellType(static_cast<CellType>(((y * W + x) >> (5 * round)) & 31), x, y);
			for (size_t i = 0; i < n; ++i) {
				uint64_t x, y; coord_of(i, h, x, y);
				uint32_t w = mapgen::tile_word(map.tiles[i]);
				uint32_t want = uint32_t(((y * W + x) >> (5 * round)) & 31);
				if (refmap::tile_cell(w) != want) V_CHECK(false, ctx << " after writing digit " << round << " of every coordinate's id, tile " << i << " (coordinate " << x << "," << y << " in 32-column block order) holds " << refmap::tile_cell(w) << " instead of " << want << ": coordinates do not address distinct tiles in block order");
				if ((w & ~31u) != (m.tiles[i] & ~31u)) V_CHECK(false, ctx << " SetCellType changed bits outside the cell-type field of tile " << i);
			}
		}
		for (size_t i = 0; i < n; ++i) m.tiles[i] = mapgen::tile_word(map.tiles[i]);
		st.cls("full_bijection_map");
	}
	// sampled coordinates: all 32 cell types, both lava states, locality of the change, refusals
	std::vector<std::pair<uint64_t, uint64_t>> pts = {{0, 0}, {W - 1, 0}, {0, h - 1}, {W - 1, h - 1}, {31, h / 2}, {32 % W, h / 2}, {W / 2, 0}, {(W / 2 + 31) % W, h - 1}};
	uint64_t ps = seed * 77 + 5;
	for (int k = 0; k < 56; ++k) { ps = ps * 6364136223846793005ULL + 1442695040888963407ULL; uint64_t x = t ? t->below(W) : (ps >> 33) % W; uint64_t y = t ? t->below(h) : (ps >> 13) % h; pts.push_back({x, y}); }
	bool small = n <= 4096;
	std::vector<uint8_t> prevBytes; if (small) prevBytes = write_map(map);
	for (size_t pi = 0; pi < pts.size(); ++pi) {
		uint64_t x = pts[pi].first, y = pts[pi].second; size_t idx = refmap::tile_index(x, y, h);
		for (unsigned ct = 0; ct < 32; ++ct) {
			if (pi >= 8 && (ct + pi) % 5 != 0) continue;     // corners and block borders get all 32 values, samples a fifth each
			map.SetCellType(static_cast<CellType>(ct), x, y);
			V_CHECK(static_cast<uint32_t>(map.GetCellType(x, y)) == ct, ctx << " SetCellType(" << ct << ") then GetCellType = " << static_cast<int>(map.GetCellType(x, y)) << " at (" << x << "," << y << ")");
			uint32_t w = mapgen::tile_word(map.tiles[idx]);
			V_CHECK(w == ((m.tiles[idx] & ~31u) | ct), ctx << " SetCellType(" << ct << ") at (" << x << "," << y << ") changed the tile word from " << m.tiles[idx] << " to " << w << " (expected only bits 0-4)");
			m.tiles[idx] = w;
		}
		for (int lv = 0; lv < 2; ++lv) {
			bool v = (lv + pi) & 1;
			map.SetLavaPossible(v, x, y);
			V_CHECK(map.GetLavaPossible(x, y) == v, ctx << " SetLavaPossible(" << v << ") then GetLavaPossible differs at (" << x << "," << y << ")");
			uint32_t w = mapgen::tile_word(map.tiles[idx]);
			V_CHECK(w == ((m.tiles[idx] & ~(1u << 28)) | (uint32_t(v) << 28)), ctx << " SetLavaPossible changed other bits of the tile word");
			m.tiles[idx] = w;
		}
		// out-of-range cell types are refused without change
		for (long long bad : {32LL, 33LL, 9999LL, -1LL, (long long)INT_MIN, 255LL, 64LL}) {
			Out o = guarded([&] { map.SetCellType(static_cast<CellType>(static_cast<int>(bad)), x, y); });
			V_CHECK(o == Out::Err, ctx << " SetCellType(" << bad << ") accepted");
			V_CHECK(mapgen::tile_word(map.tiles[idx]) == m.tiles[idx], ctx << " refused SetCellType(" << bad << ") changed the tile");
		}
		if (pi < 12 || pi % 16 == 0) for (size_t i = 0; i < n; ++i) if (mapgen::tile_word(map.tiles[i]) != m.tiles[i]) V_CHECK(false, ctx << " a setter at (" << x << "," << y << ") changed tile " << i << " which it does not address");
		if (small && pi < 10) { // serialised map differs from the model only where the model says
			std::vector<uint8_t> now = write_map(map); LMap mm = m;
			std::vector<uint8_t> exp = refmap::canonical(mm);
			V_CHECK(now == exp, ctx << " serialised map after setters differs from the model");
		}
	}
	if (n <= 70000) {
		// ONE object holding maps of different shapes one after the other: it is read as a map of the same width and another height, queried (last of
		// all in its last 32-column block), then assigned the map under test (moved from a fresh read, or copied from the live object); its very
		// first queries afterwards - in that same block first - must address the new map
		LMap other; other.lgWidth = lg; other.height = h + 1 + uint32_t(seed % 3); other.versionTag = 0x1011; other.tiles.resize(size_t(W * other.height)); for (size_t i = 0; i < other.tiles.size(); ++i) other.tiles[i] = uint32_t(i * 2246822519u + 3) & ~uint32_t(0xFFE0);
		other.mappings.push_back({1, 2, 3, 4});
		for (int how = 0; how < 2; ++how) {
			Map obj = load(other);
			(void)obj.GetCellType(0, 0); (void)obj.GetCellType(W - 1, other.height - 1); (void)obj.GetLavaPossible(W - 1, 0);
			if (how == 0) obj = load(m); else obj = map;
			V_CHECK(obj.WidthInTiles() == W && obj.HeightInTiles() == h && obj.TileCount() == n, ctx << " an object assigned a new map reports the old dimensions");
			for (uint64_t k = 0; k < 20; ++k) { uint64_t x = k == 0 ? W - 1 : k == 1 ? W - 1 - (W > 32 ? 7 : 0) : (k * 0x9E3779B97F4A7C15ULL >> 20) % W, y = k == 0 ? h - 1 : k == 1 ? 0 : (k * 0xC2B2AE3D27D4EB4FULL >> 24) % h; uint32_t w = m.tiles[refmap::tile_index(x, y, h)];
				V_CHECK(static_cast<uint32_t>(obj.GetCellType(x, y)) == refmap::tile_cell(w) && obj.GetTileMappingIndex(x, y) == refmap::tile_mapping(w) && obj.GetLavaPossible(x, y) == refmap::tile_lava_possible(w), ctx << " an object that held a map of height " << other.height << " before (assigned by " << (how ? "copy" : "move") << ") addresses (" << x << "," << y << ") of its new map wrongly"); }
			obj.SetCellType(static_cast<CellType>((refmap::tile_cell(m.tiles[refmap::tile_index(W - 1, 0, h)]) + 1) & 31), W - 1, 0);
			for (size_t i = 0; i < n; ++i) { uint32_t want = m.tiles[i]; if (i == refmap::tile_index(W - 1, 0, h)) want = (want & ~31u) | ((refmap::tile_cell(want) + 1) & 31); if (mapgen::tile_word(obj.tiles[i]) != want) V_CHECK(false, ctx << " a setter on an object that was assigned a new map changed (or failed to change) tile " << i); }
		}
		// a copy answers from its OWN tables: a tile is queried on A, A is copied to B, the mapping entry behind that tile is then changed in A (or A
		// is destroyed); B's first query for that tile reports B's entry, A reports its changed one
		for (int how = 0; how < 2; ++how) {
			auto A = std::make_unique<Map>(load(m));
			uint64_t x = (seed >> 9) % W, y = (seed >> 29) % h; uint32_t mi = refmap::tile_mapping(m.tiles[refmap::tile_index(x, y, h)]);
			V_CHECK(A->GetTilesetIndex(x, y) == m.mappings[mi][0] && A->GetImageIndex(x, y) == m.mappings[mi][1], ctx << " accessors of a freshly read map");
			Map B = *A;
			if (how == 0) { A->tileMappings[mi].tilesetIndex = uint16_t(m.mappings[mi][0] ^ 0x5555); A->tileMappings[mi].tileGraphicIndex = uint16_t(m.mappings[mi][1] + 1);
				V_CHECK(A->GetTilesetIndex(x, y) == uint16_t(m.mappings[mi][0] ^ 0x5555) && A->GetImageIndex(x, y) == uint16_t(m.mappings[mi][1] + 1), ctx << " after the mapping entry " << mi << " was changed the accessors still report the old entry"); }
			else A.reset();
			V_CHECK(B.GetTilesetIndex(x, y) == m.mappings[mi][0] && B.GetImageIndex(x, y) == m.mappings[mi][1], ctx << " a copy reports tileset " << B.GetTilesetIndex(x, y) << " image " << B.GetImageIndex(x, y) << " at (" << x << "," << y << ") after its original was " << (how ? "destroyed" : "changed") << "; its own mapping entry " << mi << " holds " << m.mappings[mi][0] << " / " << m.mappings[mi][1]);
			B.SetLavaPossible(!refmap::tile_lava_possible(m.tiles[refmap::tile_index(x, y, h)]), x, y);
			V_CHECK(B.GetLavaPossible(x, y) == !refmap::tile_lava_possible(m.tiles[refmap::tile_index(x, y, h)]), ctx << " setter on a copy");
			if (A) V_CHECK(A->GetLavaPossible(x, y) == refmap::tile_lava_possible(m.tiles[refmap::tile_index(x, y, h)]), ctx << " a setter on a copy changed the original");
		}
		st.cls("object_reuse_and_copies");
	}
	st.cls("width:2^" + std::to_string(lg)); st.cls("coordinates_checked", n);
	if (W >= 64 && h >= 2) st.nt(hmix(hmix(lg, h), seed));
}
} // namespace

void run_case(Tape& t, Stats& st) {
	unsigned lg = 5 + unsigned(t.below(6)); if (t.below(10) == 0) lg = 11 + unsigned(t.below(5));   // one case in ten: wider than any game map
	uint32_t h = t.flag() ? t.pick<uint32_t>({1, 2, 3, 31, 32, 33, 64, 255, 256}) : 1 + uint32_t(t.below(256));
	if (!g_thorough && (uint64_t(h) << lg) > 40000) h = uint32_t(40000 >> lg) ? uint32_t(40000 >> lg) : 1;
	uint64_t seed = t.u64();
	if (st.want_sample()) st.sample("{\"lg_width\":" + std::to_string(lg) + ",\"height\":" + std::to_string(h) + ",\"tile_seed\":" + std::to_string(seed % 100000) + "}");
	map_case(lg, h, seed, t.below(4) == 0, st, &t);
}

void run_sweep(Stats& st) {
	// VERIF_SWEEP_PART=i/n splits the (width, height) grid among sweep workers
	unsigned part = 0, parts = 1;
	if (const char* p = getenv("VERIF_SWEEP_PART")) sscanf(p, "%u/%u", &part, &parts);
	unsigned k = 0;
	for (unsigned lg = 5; lg <= 10; ++lg) {
		std::vector<uint32_t> hs;
		if (g_thorough) for (uint32_t h = 1; h <= 256; ++h) hs.push_back(h);
		else hs = {1, 2, 3, 31, 32, 33, 64, 255, 256};
		for (uint32_t h : hs) {
			if ((k++ % parts) != part) continue;
			if (!sw("grid", lg, h)) continue;
			map_case(lg, h, lg * 1000 + h, true, st, nullptr);
		}
	}
	// widths beyond the game's own sizes: the statement covers every power of two of at least 32 (block numbers of 6..11 bits)
	for (unsigned lg = 11; lg <= 16; ++lg) for (uint32_t h : {1u, 2u, 3u}) {
		if ((uint64_t(h) << lg) > (g_thorough ? 400000u : 70000u)) continue;
		if ((k++ % parts) != part) continue;
		if (!sw("grid_wide", lg, h)) continue;
		map_case(lg, h, lg * 1000 + h, lg <= 12, st, nullptr);
	}
	st.exhaustive = true;
}

void write_seeds(const std::string&) {}
