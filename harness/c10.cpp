// C10 — PRT sprite metadata round-trips and always satisfies its cross-field rules.
#include "prt_common.h"

using namespace verif;
using namespace OP2Utility;
using refgfx::LPrt;
const char* const PROP_ID = "C10";

namespace {
void first_diff(const std::vector<uint8_t>& a, const std::vector<uint8_t>& b, const char* what) {
	if (a == b) return;
	size_t at = 0; while (at < a.size() && at < b.size() && a[at] == b[at]) ++at;
	V_CHECK(false, what << ": byte strings differ at offset " << at << " (lengths " << a.size() << " vs " << b.size() << ")");
}

void valid_case(const LPrt& p, Stats& st) {
	std::vector<uint8_t> in = refgfx::encode_prt(p);
	ArtFile a; std::string what;
	Out o = guarded([&] { a = prtgen::read_art(in); }, &what);
	V_CHECK(o == Out::Ok, "well-formed PRT refused: " << what << " " << prtgen::render(p));
	prtgen::compare(a, p, "after read");
	prtgen::cross_field(a, "after read");
	std::vector<uint8_t> w1 = prtgen::write_art(a);
	if ((fnv1a(in.data(), in.size()) & 3) == 0) {   // the file-name overloads: same structure in, same bytes out, also over an older, longer file
		std::string fp = scratch_path("c10_in.prt"), op = scratch_path("c10_out.prt");
		write_file(fp, in); ArtFile af = ArtFile::Read(fp); prtgen::compare(af, p, "after Read(filename)");
		write_file(op, std::vector<uint8_t>(w1.size() + 4000, 0x2E)); af.Write(op);
		std::vector<uint8_t> wf; read_file(op, wf); first_diff(wf, w1, "Write(filename) over an existing longer file vs Write(stream)");
		st.cls("file_name_overloads");
	}
	prtgen::compare(a, p, "source object after Write (writing must not alter it)");
	bool canonical = true; for (auto& h : p.palHeaders) if (h.overallLen != 1048 || h.headLen != 4 || h.tagCount != 1 || h.dataLen != 1024) canonical = false;
	if (canonical) first_diff(w1, in, "written bytes vs input bytes (canonical palette headers)");
	else { LPrt c = p; for (auto& h : c.palHeaders) h = refgfx::LPalHeader(); first_diff(w1, refgfx::encode_prt(c), "written bytes vs canonical re-encoding"); st.cls("noncanonical_palette_headers"); }
	ArtFile b = prtgen::read_art(w1);
	prtgen::compare(b, p, "after write+read");
	first_diff(prtgen::write_art(b), w1, "second write vs first write (byte stability)");
	bool nt = false; for (auto& an : p.anims) for (auto& f : an.frames) if (!f.layers.empty() && (f.opt12 || f.opt34)) nt = true;
	for (auto& an : p.anims) for (auto& f : an.frames) st.cls(std::string("frame_flags:") + (f.opt12 ? "1" : "0") + (f.opt34 ? "1" : "0"));
	st.cls("palettes:" + std::to_string(p.palettes.size()));
	if (nt) st.nt(fnv1a(in.data(), in.size()));
}

void violating_read(LPrt p, unsigned kind, uint64_t a, Stats& st) {
	const char* what = ""; const LPrt orig = p;
	if (p.palettes.empty()) { std::array<std::array<uint8_t, 4>, 256> pal{}; p.palettes.push_back(pal); p.palHeaders.push_back({}); }
	if (p.images.empty()) p.images.push_back({4, 0, 1, 4, 0, 0});
	size_t ii = a % p.images.size();
	switch (kind % 6) {
	case 0: p.images[ii].paletteIndex = uint16_t(p.palettes.size() + a % 3); what = "palette index >= palette count"; break;
	case 1: { static const int32_t d[] = {4, -4, 1, 2, 3, -1, -2, -3, 5, 8, -8, 256};   // incl. values that agree with the rule once the low two bits are dropped
		p.images[ii].scanLine += uint32_t(d[(a >> 1) % 12]); if (p.images[ii].scanLine == ((p.images[ii].width + 3) & ~3u)) p.images[ii].scanLine += 8; what = "scan line is not the width rounded up to four"; break; }
	case 2: p.images[ii].width = 0xFFFFFFFDu + uint32_t(a % 3); p.images[ii].scanLine = 0; what = "width near 2^32 with a wrapped scan line of 0"; break;
	case 3: { p.overrideTotals = true; uint32_t fr = 0, ly = 0; for (auto& an : p.anims) { fr += uint32_t(an.frames.size()); for (auto& f : an.frames) ly += uint32_t(f.layers.size()); } p.hdrAnim = uint32_t(p.anims.size()); p.hdrFrames = fr + ((a & 1) ? 1 : uint32_t(-1)); p.hdrLayers = ly; what = "header frame total off by one"; break; }
	case 4: { p.overrideTotals = true; uint32_t fr = 0, ly = 0; for (auto& an : p.anims) { fr += uint32_t(an.frames.size()); for (auto& f : an.frames) ly += uint32_t(f.layers.size()); } p.hdrAnim = uint32_t(p.anims.size()); p.hdrFrames = fr; p.hdrLayers = ly + ((a & 1) ? 1 : uint32_t(-1)); what = "header layer total off by one"; break; }
	default: { if (p.palHeaders.empty()) break; p.palHeaders[0].overallLen += (a & 1) ? 1 : uint32_t(-1); what = "palette section lengths do not add up"; break; }
	}
	std::vector<uint8_t> in = refgfx::encode_prt(p);
	Out o = guarded([&] { prtgen::read_art(in); });
	V_CHECK(o == Out::Err, "PRT violating a cross-field rule was accepted: " << what);
	st.cls(std::string("violating_read:") + what); st.nt(fnv1a(in.data(), std::min<size_t>(in.size(), 4096), kind) ^ 0xB1);
	// a refused load must leave nothing behind: the intact file is read, written and re-read right afterwards, in the same process and thread
	if (orig.images.size() <= 100) { valid_case(orig, st); st.cls("valid_round_trip_right_after_a_refused_read"); }
}

void violating_write(const LPrt& p, unsigned kind, uint64_t a, Stats& st) {
	ArtFile art = prtgen::read_art(refgfx::encode_prt(p));
	const ArtFile good = art; const std::vector<uint8_t> goodBytes = prtgen::write_art(good);
	const char* what = "";
	if (art.palettes.empty()) art.palettes.resize(1);
	if (art.imageMetas.empty()) { ImageMeta m{}; m.scanLineByteWidth = 8; m.width = 5; art.imageMetas.push_back(m); }
	size_t ii = a % art.imageMetas.size();
	switch (kind % 5) {
	case 0: art.imageMetas[ii].paletteIndex = uint16_t(art.palettes.size()); what = "palette index == palette count"; break;
	case 1: { static const int32_t d[] = {4, 1, 2, 3, -1, -3, -4, 7}; uint32_t right = (art.imageMetas[ii].width + 3) & ~3u; art.imageMetas[ii].scanLineByteWidth = right + uint32_t(d[(a >> 2) % 8]); what = "wrong scan line"; break; }
	case 4: {   // TWO frames whose count/list mismatches cancel in any file-wide total: one list a layer longer, another a layer shorter (or its count one higher)
		if (art.animations.empty()) art.animations.resize(1);
		size_t a2 = (a & 8) && art.animations.size() > 1 ? art.animations.size() - 1 : 0;
		while (art.animations[a2].frames.empty() || art.animations[0].frames.size() + (a2 ? art.animations[a2].frames.size() : 0) < 2) { Animation::Frame f{}; art.animations[a2].frames.push_back(f); }
		auto& f1 = art.animations[0].frames.empty() ? art.animations[a2].frames[0] : art.animations[0].frames[0]; auto& f2 = art.animations[a2].frames.back();
		V_CHECK(&f1 != &f2, "harness: two distinct frames");
		unsigned k = 1 + unsigned(a >> 4) % 2;
		if (f1.layers.size() + k > 127) break;
		f1.layers.resize(f1.layers.size() + k);
		if (f2.layers.size() >= k) f2.layers.resize(f2.layers.size() - k); else if (f2.layerMetadata.count + k <= 127) f2.layerMetadata.count = uint8_t(f2.layerMetadata.count + k); else break;
		what = "two frames with cancelling count/list mismatches"; break; }
	case 2: art.imageMetas[ii].width = 0xFFFFFFFEu; art.imageMetas[ii].scanLineByteWidth = 0; what = "width 0xFFFFFFFE with scan line 0"; break;
	default: { if (art.animations.empty()) art.animations.resize(1); if (art.animations[0].frames.empty()) { Animation::Frame f{}; art.animations[0].frames.push_back(f); } auto& f = art.animations[0].frames[0]; f.layers.resize(f.layers.size() + ((a & 4) ? 128u << (a % 3) : 1 + a % 2)); what = "layer list longer than the frame's count"; break; }
	}
	if (!*what) return;   // no violation could be planted in this structure
	Stream::DynamicMemoryWriter w;
	Out o = guarded([&] { art.Write(w); });
	V_CHECK(o == Out::Err, "ArtFile::Write accepted a structure violating a cross-field rule: " << what);
	// the refused write must not colour what is written next (same thread, fresh destination): the lawful structure still gives its bytes,
	// twice in a row, and those bytes still load
	first_diff(prtgen::write_art(good), goodBytes, "bytes of a lawful structure written right after a refused write vs the same structure written before it");
	first_diff(prtgen::write_art(good), goodBytes, "second write after a refused write");
	if ((a & 3) == 0) { Out o2 = guarded([&] { art.Write(w); }); V_CHECK(o2 == Out::Err, "the same violating structure was accepted at the second attempt: " << what); first_diff(prtgen::write_art(good), goodBytes, "write after two refused writes"); }
	st.cls("valid_write_right_after_a_refused_write");
	st.cls(std::string("violating_write:") + what); st.nt(hmix(kind % 5, a % 97) ^ 0xB2);
}
} // namespace

void run_case(Tape& t, Stats& st) {
	unsigned mode = unsigned(t.below(8));
	LPrt p = prtgen::gen_lprt(t);
	if (st.want_sample()) st.sample("{\"mode\":" + std::to_string(mode) + ",\"prt\":" + prtgen::render(p) + "}");
	// a structure that used up the whole tape would otherwise always get kind 0 at record 0: derive both from the structure then
	bool spent = t.empty(); uint64_t hsh = hmix(hmix(p.images.size(), p.anims.size()), p.images.empty() ? 7 : p.images.back().pixelOffset + p.images.size() * 2654435761u);
	if (mode == 0) { unsigned k = unsigned(t.below(6)); uint64_t a = t.u16(); if (spent) { k = unsigned(hsh % 6); a = hsh >> 8; } violating_read(p, k, a, st); }
	else if (mode == 1) { unsigned k = unsigned(t.below(5)); uint64_t a = t.u16(); if (spent) { k = unsigned(hsh % 5); a = hsh >> 8; } violating_write(p, k, a, st); }
	else {
		// one case in four: ANOTHER structure goes through the reader and the writer first (larger or smaller, other flags) - what the library
		// did before must not show in what it does now
		if (t.below(4) == 0) { LPrt q = prtgen::gen_lprt(t); if (q.images.size() <= 100) { valid_case(q, st); st.cls("another_structure_processed_first"); } }
		valid_case(p, st);
	}
}

void run_sweep(Stats& st) {
	// frames with each combination of the two optional-data flags x every layer count 0..127, alone and between other frames
	for (unsigned flags = 0; flags < 4; ++flags) for (unsigned nl = 0; nl <= 127; ++nl) {
		if (!sw("frame", flags, nl)) continue;
		LPrt p; std::array<std::array<uint8_t, 4>, 256> pal; for (size_t i = 0; i < 256; ++i) pal[i] = {uint8_t(i), uint8_t(255 - i), uint8_t(i * 3), uint8_t(i ^ 0x55)};
		p.palettes = {pal}; p.palHeaders = {{}}; p.images = {{8, 100, 7, 5, 4, 0}};
		refgfx::LAnim a; a.unknown = 1; a.rect[0] = -1; a.rect[1] = 2; a.rect[2] = 3; a.rect[3] = 4; a.dx = -5; a.dy = 6; a.unknown2 = 0x3C;
		refgfx::LFrame before; before.count7 = 1; before.opt12 = true; before.opt34 = false; before.unk7 = 3; before.o1 = 0xAA; before.o2 = 0xBB; before.layers = {{1, 2, 3, 4, 5}};
		refgfx::LFrame fr; fr.count7 = uint8_t(nl); fr.opt12 = flags & 1; fr.opt34 = flags & 2; fr.unk7 = uint8_t(nl ^ 0x55) & 0x7F; if (fr.opt12) { fr.o1 = 0x11; fr.o2 = 0x22; } if (fr.opt34) { fr.o3 = 0x33; fr.o4 = 0x44; }
		for (unsigned l = 0; l < nl; ++l) fr.layers.push_back({uint16_t(l), uint8_t(l), uint8_t(nl), int16_t(-int(l)), int16_t(l)});
		refgfx::LFrame after; after.count7 = 0; after.opt12 = false; after.opt34 = false; after.unk7 = 0;
		a.frames = {before, fr, after}; a.unknownContainer = {{1, 2, 3, 4}};
		p.anims = {a}; p.unknownAnimationCount = 9;
		valid_case(p, st);
	}
	// palettes 0..3 x images 0..2 x animations 0..2 (empty tables in every position)
	for (unsigned np = 0; np <= 3; ++np) for (unsigned ni = 0; ni <= 2; ++ni) for (unsigned na = 0; na <= 2; ++na) {
		if (!np && ni) continue;
		if (!sw("tables", np, ni, na)) continue;
		LPrt p; for (unsigned i = 0; i < np; ++i) { std::array<std::array<uint8_t, 4>, 256> pal; for (size_t k = 0; k < 256; ++k) pal[k] = {uint8_t(k + i), 1, uint8_t(200 - i), 4}; p.palettes.push_back(pal); p.palHeaders.push_back({}); }
		for (unsigned i = 0; i < ni; ++i) p.images.push_back({uint32_t((i * 3 + 3) & ~3u), i, i, i * 3, uint16_t(i), uint16_t(i % np)});
		for (unsigned i = 0; i < na; ++i) { refgfx::LAnim a{}; a.unknown = i; a.unknown2 = 7; if (i) { refgfx::LFrame f; f.count7 = 0; f.opt12 = f.opt34 = false; f.unk7 = 0; a.frames = {f}; } p.anims.push_back(a); }
		valid_case(p, st);
		for (unsigned kind = 0; kind < 6; ++kind) violating_read(p, kind, np * 7 + ni, st);
		for (unsigned kind = 0; kind < 4; ++kind) violating_write(p, kind, na, st);
		for (uint64_t a : {uint64_t(4), uint64_t(5), uint64_t(6)}) violating_write(p, 3, a, st);   // list longer by 128, 256, 512
	}
	// image tables beyond 1024 / 2048 / 4096 / 65536 records (whatever batch or index width a reader uses) with ONE violating record late in the
	// table: the last one, record 1024, the middle one, record 65536 - refused on read and on write; the intact table round-trips
	for (uint32_t n : {1025u, 2049u, 4097u, 65537u, 70000u}) {
		LPrt p; std::array<std::array<uint8_t, 4>, 256> pal{}; for (size_t i = 0; i < 256; ++i) pal[i] = {uint8_t(i), uint8_t(i * 3), 9, 0}; p.palettes = {pal, pal}; p.palHeaders = {{}, {}};
		for (uint32_t i = 0; i < n; ++i) { uint32_t w = 1 + i % 37; p.images.push_back({(w + 3) & ~3u, i * 16, 1 + i % 5, w, uint16_t(i % 3), uint16_t(i & 1)}); }
		if (sw("big_image_table", n, 0)) valid_case(p, st);
		for (uint32_t r : {n - 1, 1024u, n / 2, 65536u}) { if (r >= n) continue; for (unsigned kind = 0; kind < 2; ++kind) {
			if (!sw("big_image_table", n, 1 + r, kind)) continue;
			violating_read(p, kind, r, st);                     // a % n == r: the violating record is record r
			{ ArtFile art = prtgen::read_art(refgfx::encode_prt(p)); if (kind == 0) art.imageMetas[r].paletteIndex = 2; else art.imageMetas[r].scanLineByteWidth += 4; Stream::DynamicMemoryWriter w; V_CHECK(guarded([&] { art.Write(w); }) == Out::Err, "ArtFile::Write accepted a table of " << n << " images whose record " << r << " violates a cross-field rule"); }
		} }
	}
	st.exhaustive = true;
}

void write_seeds(const std::string&) {}
