// C09 — tilesets load to the same picture from custom and standard formats.
#include "common/verif.h"
#include "ref/ref_gfx.h"
#include "Bitmap/BitmapFile.h"
#include "Sprite/TilesetLoader.h"
#include "Stream/MemoryReader.h"
#include "Stream/FileReader.h"
#include "Stream/DynamicMemoryWriter.h"

using namespace verif;
using namespace OP2Utility;
const char* const PROP_ID = "C09";

namespace {
struct Pic { uint32_t h; std::vector<std::array<uint8_t, 4>> pal; std::vector<uint8_t> rows; };   // rows top-down, 32 bytes each

BitmapFile make_bmp(const Pic& p, bool bottomUp) {
	std::vector<Color> pal; for (auto& c : p.pal) pal.push_back(Color{c[0], c[1], c[2], c[3]});
	std::vector<uint8_t> px = p.rows;
	if (bottomUp) for (uint32_t y = 0; y < p.h; ++y) memcpy(&px[size_t(y) * 32], &p.rows[size_t(p.h - 1 - y) * 32], 32);
	return BitmapFile::CreateIndexed(8, 32, bottomUp ? int32_t(p.h) : -int32_t(p.h), pal, px);
}
std::vector<uint8_t> bytes_of(Stream::DynamicMemoryWriter& w) { std::vector<uint8_t> out(w.Length()); auto r = w.GetReader(); r.Read(out.data(), out.size()); return out; }
std::vector<uint8_t> custom_bytes(const BitmapFile& b, int overload = -1) { Stream::DynamicMemoryWriter w; if (overload < 0) overload = int(fnv1a(b.pixels.data(), b.pixels.size(), b.palette.size()) & 1); if (overload) Tileset::WriteCustomTileset(std::move(w), b); /* the overload taking an rvalue writer */ else Tileset::WriteCustomTileset(w, b); return bytes_of(w); }
std::vector<uint8_t> bmp_bytes(const BitmapFile& b) { Stream::DynamicMemoryWriter w; b.WriteIndexed(w); return bytes_of(w); }
BitmapFile load(const std::vector<uint8_t>& v) {
	uint8_t* heap = static_cast<uint8_t*>(malloc(v.size() ? v.size() : 1)); struct F { uint8_t* p; ~F() { free(p); } } g{heap};
	if (!v.empty()) memcpy(heap, v.data(), v.size());
	if (fnv1a(v.data(), v.size()) & 1) return Tileset::ReadTileset(Stream::MemoryReader(heap, v.size()));   // the overload taking a temporary stream
	Stream::MemoryReader r(heap, v.size()); return Tileset::ReadTileset(r);
}

// logical rows (top-down) of a loaded bitmap
std::vector<uint8_t> logical_rows(const BitmapFile& b) {
	uint32_t H = b.AbsoluteHeight(); std::vector<uint8_t> rows(size_t(H) * 32);
	for (uint32_t y = 0; y < H; ++y) { uint32_t src = b.imageHeader.height < 0 ? y : H - 1 - y; memcpy(&rows[size_t(y) * 32], &b.pixels[size_t(src) * 32], 32); }
	return rows;
}
void same_picture(const BitmapFile& b, const Pic& p, const char* ctx) {
	V_CHECK(b.imageHeader.bitCount == 8 && b.imageHeader.width == 32 && b.AbsoluteHeight() == p.h, ctx << ": geometry " << b.imageHeader.width << "x" << b.imageHeader.height << "@" << b.imageHeader.bitCount << " for a 32x" << p.h << " picture");
	V_CHECK(b.pixels.size() == size_t(p.h) * 32, ctx << ": pixel byte count");
	V_CHECK(logical_rows(b) == p.rows, ctx << ": rows differ from the picture");
	V_CHECK(b.palette.size() == 256, ctx << ": palette size " << b.palette.size());
	for (size_t i = 0; i < 256; ++i) V_CHECK(b.palette[i].red == p.pal[i][0] && b.palette[i].green == p.pal[i][1] && b.palette[i].blue == p.pal[i][2] && b.palette[i].alpha == p.pal[i][3], ctx << ": colour " << i << " differs (red/blue swapped?)");
}

void picture_case(const Pic& p, Stats& st) {
	std::vector<uint8_t> ref = refgfx::encode_tileset(p.h, p.pal, p.rows);
	std::vector<uint8_t> prev;
	for (int bu = 0; bu < 2; ++bu) {
		BitmapFile src = make_bmp(p, bu);
		BitmapFile keep = src;
		std::vector<uint8_t> cb = custom_bytes(src);
		V_CHECK(src == keep, "WriteCustomTileset altered the caller's bitmap");
		V_CHECK(custom_bytes(src, 0) == cb && custom_bytes(src, 1) == cb, "the two writer overloads of WriteCustomTileset give different bytes for the same picture");
		if (cb != ref) { size_t at = 0; while (at < cb.size() && at < ref.size() && cb[at] == ref[at]) ++at; V_CHECK(false, "custom tileset bytes from a " << (bu ? "bottom-up" : "top-down") << " source differ from the independent description at offset " << at << " (lengths " << cb.size() << " vs " << ref.size() << ")"); }
		BitmapFile fromCustom = load(cb);
		same_picture(fromCustom, p, "loaded from custom format");
		V_CHECK(custom_bytes(fromCustom) == cb, "saving the picture that was loaded from the custom format does not reproduce the file byte for byte");
		V_CHECK(p.h == 0 || fromCustom.imageHeader.height < 0, "picture loaded from the custom format is not top-down (height " << fromCustom.imageHeader.height << ")");
		BitmapFile fromBmp = load(bmp_bytes(src));
		same_picture(fromBmp, p, "loaded from standard bitmap");
		V_CHECK(fromBmp.imageHeader.height == src.imageHeader.height, "standard bitmap orientation not kept as stored");
		// the same picture as an independently encoded standard bitmap: optional header fields stated the way ordinary encoders do
		for (unsigned variant = 0; variant < 3; ++variant) {
			refgfx::LBmp L; L.depth = 8; L.width = 32; L.height = bu ? int32_t(p.h) : -int32_t(p.h);
			for (auto& c : p.pal) L.palette.push_back({c[0], c[1], c[2], c[3]});   // file order == the library's in-memory Color byte order (cf. C08)
			L.pixels = src.pixels;
			if (variant >= 1) { L.imageSize = uint32_t(L.pixels.size()); L.xRes = 2835; L.yRes = 2835; }
			if (variant == 2) { L.usedColors = 256; L.importantColors = 256; }
			BitmapFile fromRef; std::string what;
			Out o = guarded([&] { fromRef = load(refgfx::encode_bmp(L)); }, &what);
			V_CHECK(o == Out::Ok, "tileset stored as a standard bitmap (" << (bu ? "bottom-up" : "top-down") << ", height " << p.h << ", stated image size " << L.imageSize << ", used colours " << L.usedColors << ") refused: " << what);
			same_picture(fromRef, p, "loaded from an independently encoded standard bitmap");
			V_CHECK(custom_bytes(fromRef) == ref, "custom tileset bytes depend on header fields of the source bitmap (image size / resolution / colour counts) and not on the picture alone");
			V_CHECK(fromRef.imageHeader.height == L.height, "standard bitmap orientation not kept as stored");
		}
	}
	st.cls("picture:h" + std::to_string(std::min<uint32_t>(p.h / 32, 9)) + "tiles");
	bool rb = false; for (auto& c : p.pal) if (c[0] != c[2]) rb = true;
	if (p.h >= 64 && rb) st.nt(fnv1a(p.rows.data(), p.rows.size(), fnv1a(p.pal.data(), 1024)));
}

__attribute__((noinline)) void scribble(uint8_t v) { volatile uint8_t buf[16384]; for (size_t i = 0; i < sizeof buf; ++i) buf[i] = uint8_t(v + i); }

// A tileset picture whose standard-bitmap storage has a PARTIAL colour table (k < 256 used colours) is a valid tileset picture too: the
// loader accepts it with a k-entry palette.  Saving it in the custom format must still give bytes of the described shape (the palette
// section is always 256 entries = 1024 bytes; what the unused entries hold is not prescribed) that load back to the same picture.
void partial_palette_case(const Pic& p, unsigned k, bool bottomUp, Stats& st) {
	refgfx::LBmp L; L.depth = 8; L.width = 32; L.height = bottomUp ? int32_t(p.h) : -int32_t(p.h); L.usedColors = k;
	for (unsigned i = 0; i < k; ++i) L.palette.push_back({p.pal[i][0], p.pal[i][1], p.pal[i][2], p.pal[i][3]});
	std::vector<uint8_t> rows = p.rows; for (auto& b : rows) b = uint8_t(b % k);        // every pixel names an existing colour
	L.pixels = rows; if (bottomUp) for (uint32_t y = 0; y < p.h; ++y) memcpy(&L.pixels[size_t(y) * 32], &rows[size_t(p.h - 1 - y) * 32], 32);
	BitmapFile src; std::string what;
	Out o = guarded([&] { src = load(refgfx::encode_bmp(L)); }, &what);
	V_CHECK(o == Out::Ok, "tileset stored as a standard bitmap with " << k << " used colours refused: " << what);
	V_CHECK(src.palette.size() >= k && logical_rows(src) == rows, "standard bitmap with a partial colour table loaded with other rows or fewer colours");
	for (unsigned i = 0; i < k; ++i) V_CHECK(src.palette[i].red == p.pal[i][0] && src.palette[i].green == p.pal[i][1] && src.palette[i].blue == p.pal[i][2] && src.palette[i].alpha == p.pal[i][3], "colour " << i << " of the partial table differs after load");
	std::vector<uint8_t> cb;
	o = guarded([&] { cb = custom_bytes(src); }, &what);
	V_CHECK(o == Out::Ok, "WriteCustomTileset refused a valid tileset picture with " << src.palette.size() << " palette entries: " << what);
	{ scribble(0x5A); std::vector<uint8_t> again = custom_bytes(src); scribble(0xC3); V_CHECK(again == cb, "two saves of the same partial-palette picture differ (bytes not determined by the picture alone)"); }
	{ // ... nor on what was saved in between: ANOTHER picture of the same height with a full, different colour table (and one of another height) goes through the writer first
		Pic other = p; for (size_t i = 0; i < 256; ++i) other.pal[i] = {uint8_t(255 - p.pal[i][0]), uint8_t(p.pal[i][1] ^ 0x5A), uint8_t(i), uint8_t(0xEE)};
		(void)custom_bytes(make_bmp(other, !bottomUp));
		std::vector<uint8_t> after = custom_bytes(src);
		if (after != cb) { size_t at = 0; while (at < after.size() && at < cb.size() && after[at] == cb[at]) ++at; V_CHECK(false, "the bytes saved for a picture with " << k << " colours differ at offset " << at << " once another picture of the same height was saved in between (bytes not determined by the picture alone)"); }
		Pic small = other; small.h = p.h ? p.h - 32 : 32; small.rows.assign(size_t(small.h) * 32, 7); (void)custom_bytes(make_bmp(small, bottomUp));
		V_CHECK(custom_bytes(src) == cb, "the bytes saved for a picture with " << k << " colours changed once a picture of another height was saved in between");
		st.cls("picture:other_pictures_saved_in_between");
	}
	size_t want = refgfx::encode_tileset(p.h, std::vector<std::array<uint8_t, 4>>(256), rows).size();   // every section of the described format, 256-entry palette
	V_CHECK(cb.size() == want, "custom tileset written from a picture with " << src.palette.size() << " palette entries has " << cb.size() << " bytes; the format's sections (256-entry palette, " << p.h << " rows) add up to " << want);
	std::vector<std::array<uint8_t, 4>> pal256(256);
	for (unsigned i = 0; i < 256; ++i) { if (i < k) pal256[i] = p.pal[i]; else { const uint8_t* e = &cb[64 + 4 * size_t(i)]; pal256[i] = {e[2], e[1], e[0], e[3]}; } }   // unused entries: whatever was written
	std::vector<uint8_t> ref = refgfx::encode_tileset(p.h, pal256, rows);
	if (cb != ref) { size_t at = 0; while (at < cb.size() && cb[at] == ref[at]) ++at; V_CHECK(false, "custom tileset bytes of a partial-palette picture differ from the independent description at offset " << at); }
	BitmapFile back; o = guarded([&] { back = load(cb); }, &what);
	V_CHECK(o == Out::Ok, "custom tileset written from a picture with " << k << " colours cannot be loaded back: " << what);
	V_CHECK(back.AbsoluteHeight() == p.h && logical_rows(back) == rows, "partial-palette picture does not come back with the same rows");
	V_CHECK(back.palette.size() >= k, "partial-palette picture comes back with " << back.palette.size() << " colours");
	for (unsigned i = 0; i < k; ++i) V_CHECK(back.palette[i].red == p.pal[i][0] && back.palette[i].green == p.pal[i][1] && back.palette[i].blue == p.pal[i][2] && back.palette[i].alpha == p.pal[i][3], "colour " << i << " differs after the custom-format round trip of a partial-palette picture");
	st.cls("picture:partial_colour_table"); st.nt(hmix(fnv1a(rows.data(), rows.size()), k * 2 + bottomUp) ^ 0xAC);
}

void signature_case(const std::vector<uint8_t>& pre, const std::vector<uint8_t>& sig, const std::vector<uint8_t>& post, Stats& st) {
	std::vector<uint8_t> v = pre; v.insert(v.end(), sig.begin(), sig.end()); v.insert(v.end(), post.begin(), post.end());
	uint8_t* heap = static_cast<uint8_t*>(malloc(v.size() ? v.size() : 1)); struct F { uint8_t* p; ~F() { free(p); } } g{heap};
	if (!v.empty()) memcpy(heap, v.data(), v.size());
	Stream::MemoryReader r(heap, v.size()); r.Seek(pre.size());
	bool is = false; Out o = guarded([&] { is = (pre.size() + sig.size()) & 1 ? Tileset::PeekIsCustomTileset(std::move(r)) : Tileset::PeekIsCustomTileset(r); });
	V_CHECK(r.Position() == pre.size(), "PeekIsCustomTileset moved the stream from " << pre.size() << " to " << r.Position());
	if (sig.size() + post.size() >= 4) {
		V_CHECK(o == Out::Ok, "PeekIsCustomTileset threw with 4 bytes available");
		bool want = v[pre.size()] == 'P' && v[pre.size() + 1] == 'B' && v[pre.size() + 2] == 'M' && v[pre.size() + 3] == 'P';
		V_CHECK(is == want, "PeekIsCustomTileset = " << is << " for signature " << hex(v.data() + pre.size(), 4));
		st.cls(want ? "peek:pbmp" : "peek:other");
	} else st.cls("peek:short_stream");
	if (sig.size() + post.size() >= 4) {   // the same through a file-backed stream
		std::string fp = scratch_path("c09_sig.bin"); write_file(fp, v);
		Stream::FileReader fr(fp); fr.Seek(pre.size());
		bool isf = Tileset::PeekIsCustomTileset(fr);
		V_CHECK(fr.Position() == pre.size(), "PeekIsCustomTileset moved a file-backed stream from " << pre.size() << " to " << fr.Position());
		bool want = v[pre.size()] == 'P' && v[pre.size() + 1] == 'B' && v[pre.size() + 2] == 'M' && v[pre.size() + 3] == 'P';
		V_CHECK(isf == want, "PeekIsCustomTileset on a file-backed stream = " << isf << " for signature " << hex(v.data() + pre.size(), 4));
	}
	st.nt(fnv1a(v.data(), v.size(), pre.size()) ^ 0x51);
}

void violating_case(unsigned kind, uint64_t a, Stats& st) {
	// pictures violating the constraints are refused on save and on load
	std::vector<Color> pal(256); BitmapFile b; const char* what = "";
	switch (kind % 6) {
	case 4: { // two fields wrong together so that a row still has 32 bytes: 4 bit x 63..64, 1 bit x 249..256
		bool four = a & 1; uint32_t w = four ? 63 + uint32_t((a >> 1) & 1) : 249 + uint32_t((a >> 1) % 8); int32_t h = 32 * (1 + int32_t((a >> 5) % 3)); if (a & 0x10) h = -h;
		b = BitmapFile::CreateIndexed(four ? 4 : 1, w, h); what = "depth/width pair with 32-byte rows"; break; }
	case 5: { // arbitrary (depth, width, height) triple that is not a tileset
		unsigned d = (a & 3) == 0 ? 1 : (a & 3) == 1 ? 4 : 8; uint32_t w = uint32_t((a >> 2) % 300); int32_t h = int32_t((a >> 11) % 5) * 32 + ((a >> 14) & 1 ? int32_t((a >> 15) % 32) : 0); if (a & 0x400) h = -h;
		if (d == 8 && w == 32 && h % 32 == 0) w = 31;
		b = BitmapFile::CreateIndexed(uint16_t(d), w, h); what = "arbitrary non-tileset triple"; break; }
	case 0: b = BitmapFile::CreateIndexed(1, 32, 32); what = "depth 1"; break;
	case 1: b = BitmapFile::CreateIndexed(4, 32, -64); what = "depth 4"; break;
	case 2: { uint32_t w = uint32_t(a % 70); if (w == 32) w = 33; b = BitmapFile::CreateIndexed(8, w, 32); what = "width != 32"; break; }
	default: { int32_t h = int32_t(a % 200) + 1; if (h % 32 == 0) ++h; if (a & 0x100) h = -h; b = BitmapFile::CreateIndexed(8, 32, h); what = "height not a multiple of 32"; break; }
	}
	Stream::DynamicMemoryWriter w;
	V_CHECK(guarded([&] { Tileset::WriteCustomTileset(w, b); }) == Out::Err, "WriteCustomTileset accepted a picture with " << what);
	V_CHECK(w.Length() == 0, "refused save still wrote " << w.Length() << " bytes");
	{ Stream::DynamicMemoryWriter w2; V_CHECK(guarded([&] { Tileset::WriteCustomTileset(std::move(w2), b); }) == Out::Err, "WriteCustomTileset (rvalue-writer overload) accepted a picture with " << what); }
	{ BitmapFile flipped = b; bool ok = guarded([&] { flipped.InvertScanLines(); }) == Out::Ok; if (ok) { Stream::DynamicMemoryWriter w3, w4; V_CHECK(guarded([&] { Tileset::WriteCustomTileset(w3, flipped); }) == Out::Err && guarded([&] { Tileset::WriteCustomTileset(std::move(w4), flipped); }) == Out::Err, "WriteCustomTileset accepted the same violating picture in the other scan-line orientation: " << what); V_CHECK(guarded([&] { load(bmp_bytes(flipped)); }) == Out::Err, "ReadTileset accepted the violating picture in the other orientation: " << what); } }
	V_CHECK(guarded([&] { load(bmp_bytes(b)); }) == Out::Err, "ReadTileset accepted a standard bitmap with " << what);
	st.cls(std::string("violating:") + what); st.nt(hmix(kind % 6, a % 70000) ^ 0x71);
}

// custom tileset files that DECLARE another bit depth and are laid out the way a reader honouring that depth would consume them
// (short colour table, rows of the narrower pitch): a picture that is not 8-bit is refused however consistent the rest of the file is
void depth_shaped_case(const Pic& p, unsigned depth, unsigned layout, Stats& st) {
	using refvol::put32; using refvol::puttag;
	uint32_t h = p.h; size_t entries = depth <= 8 ? (size_t(1) << depth) : 0; uint64_t pitchD = refgfx::pitch(32, depth);
	uint32_t palLen = layout == 2 ? uint32_t(4 * entries) : 1024;
	std::vector<uint8_t> v;
	puttag(v, "PBMP"); put32(v, 0);
	puttag(v, "head"); put32(v, 0x14); put32(v, 2); put32(v, 32); put32(v, h); put32(v, depth); put32(v, 8);
	puttag(v, "PPAL"); put32(v, palLen + 24); puttag(v, "head"); put32(v, 4); put32(v, 1);
	puttag(v, "data"); put32(v, palLen);
	size_t table = layout == 3 ? 256 : entries;
	for (size_t i = 0; i < table; ++i) { auto& c = p.pal[i % p.pal.size()]; v.push_back(c[2]); v.push_back(c[1]); v.push_back(c[0]); v.push_back(c[3]); }
	puttag(v, "data"); put32(v, layout == 0 ? 32 * h : uint32_t(pitchD * h));
	for (uint64_t i = 0; i < pitchD * h; ++i) v.push_back(p.rows.empty() ? 0 : p.rows[size_t(i % p.rows.size())]);
	v.resize(v.size() + (layout & 4 ? 0 : 1100), 0);   // slack, so that no reading order runs out of bytes
	uint32_t total = uint32_t(v.size() - 8); for (int j = 0; j < 4; ++j) v[4 + j] = uint8_t(total >> (8 * j));
	V_CHECK(guarded([&] { load(v); }) == Out::Err, "custom tileset declaring bit depth " << depth << " (layout " << layout << ", " << h << " rows) was accepted");
	st.cls("depth_shaped:refused"); st.nt(hmix(depth * 8 + layout, h) ^ 0xD5);
}

void perturbed_custom(const Pic& p, size_t field, uint32_t value, Stats& st) {
	std::vector<uint8_t> v = refgfx::encode_tileset(p.h, p.pal, p.rows);
	uint32_t old = refvol::get32(v, field);
	if (old == value) return;
	for (int j = 0; j < 4; ++j) v[field + j] = uint8_t(value >> (8 * j));
	// fields the loader is documented to validate: every tag, every section size except the PBMP total (only non-zero), tag counts, width, height multiple, depth
	bool mustRefuse = true;
	if (field == 4) mustRefuse = value == 0;                              // PBMP length: only 0 is invalid
	if (field == 32) mustRefuse = false;                                  // flags: meaning unknown, not validated
	if (field == 24) mustRefuse = (value % 32) != 0 || value != p.h;      // another multiple of 32 changes the expected data length -> refused by the pixel header check
	if (field == 28) mustRefuse = (value & 0xFFFF) != 8;                  // depth (a value whose low 16 bits are 8 is not claimed either way)
	Out o = guarded([&] { load(v); });
	if (mustRefuse) V_CHECK(o == Out::Err, "custom tileset with header field at offset " << field << " changed from " << old << " to " << value << " was accepted");
	st.cls(o == Out::Err ? "perturbed:refused" : "perturbed:accepted");
}

Pic gen_pic(Tape& t) {
	Pic p; uint32_t k = uint32_t(t.below(g_thorough ? 65 : 9)); if (t.below(4) == 0) k = t.pick<uint32_t>({0, 1, 2, 3}); else if (t.below(8) == 0) k = t.pick<uint32_t>({31, 32, 33, 47, 63, 64, 65, 100});
	p.h = 32 * k; p.pal.resize(256);
	uint64_t s = t.u64() | 1; bool grey = t.below(6) == 0;
	for (auto& c : p.pal) { s ^= s << 13; s ^= s >> 7; s ^= s << 17; c = {uint8_t(s >> 8), uint8_t(s >> 16), grey ? uint8_t(s >> 8) : uint8_t(s >> 24), uint8_t(s >> 32)}; }
	p.rows = t.expand(size_t(p.h) * 32);
	return p;
}
} // namespace

void run_case(Tape& t, Stats& st) {
	switch (t.below(7)) {
	case 6: { Pic p = gen_pic(t); if (p.h > 96) { p.h = 96; p.rows.resize(96 * 32); } unsigned k = t.flag() ? 1 + unsigned(t.below(255)) : t.pick<unsigned>({1, 2, 16, 128, 254, 255}); partial_palette_case(p, k, t.flag(), st); break; }
	case 0: { auto pre = t.bytes(t.below(9)); std::vector<uint8_t> sig = t.pick<std::vector<uint8_t>>({{'P', 'B', 'M', 'P'}, {'P', 'B', 'M', 'Q'}, {'p', 'B', 'M', 'P'}, {'B', 'M', 0, 0}, {'P', 'B', 'M'}, {'Q', 'B', 'M', 'P'}, {'P', 'B', 'M', 'P' ^ 0x80}});
		if (t.below(3) == 0) { sig = t.bytes(4); } if (t.below(4) == 0 && sig.size() == 4) sig[t.below(4)] ^= uint8_t(1u << t.below(8));
		signature_case(pre, sig, t.bytes(t.below(6)), st); break; }
	case 1: if (t.below(3) == 0) { Pic p = gen_pic(t); if (p.h > 96) { p.h = 96; p.rows.resize(96 * 32); } depth_shaped_case(p, t.pick<unsigned>({1, 4, 4, 2, 16, 24, 32, 0}), unsigned(t.below(8)), st); break; }
		violating_case(unsigned(t.below(6)), t.u32(), st); break;
	case 2: { Pic p = gen_pic(t); if (p.h > 64) { p.h = 64; p.rows.resize(64 * 32); } auto f = refgfx::tileset_fields(); size_t field = f[t.below(f.size())]; uint32_t val = t.pick<uint32_t>({0, 1, 2, 4, 8, 16, 31, 32, 33, 64, 1024, 1048, 0x14, 0x7FFFFFE0u, 0x80000000u, 0xFFFFFFE0u, 0xFFFFFFFFu, 0x10008u}); if (t.below(3) == 0) val = refvol::get32(refgfx::encode_tileset(p.h, p.pal, p.rows), field) ^ (1u << t.below(32)); perturbed_custom(p, field, val, st); st.nt(hmix(field, val) ^ 0x99); break; }
	default: { Pic p = gen_pic(t); if (st.want_sample()) st.sample("{\"picture\":{\"height\":" + std::to_string(p.h) + ",\"palette0\":\"" + hex(p.pal.data(), 8) + "\",\"row0\":\"" + hex(p.rows, 16) + "\"}}"); if (t.below(4) == 0) { Pic q = gen_pic(t); if (q.h > 128) { q.h = 128; q.rows.resize(128 * 32); } if (t.flag()) { q.h = p.h; q.rows.resize(size_t(q.h) * 32, 9); } picture_case(q, st); st.cls("another_picture_processed_first"); }
		picture_case(p, st); break; }
	}
}

void run_sweep(Stats& st) {
	std::vector<uint8_t> tp(64); for (size_t i = 0; i < tp.size(); ++i) tp[i] = uint8_t(i * 41 + 3);
	std::vector<uint32_t> hs; for (uint32_t k = 0; k <= (g_thorough ? 130u : 12u); ++k) hs.push_back(k);
	if (g_thorough) for (uint32_t k : {255u, 256u, 2047u}) hs.push_back(k);   // 32h crosses 2^16 and 2^18 (realistic tileset sizes)
	if (!g_thorough) for (uint32_t k : {31u, 32u, 33u, 40u, 63u, 64u, 65u, 75u, 96u, 100u}) hs.push_back(k);   // beyond 1024 rows, around multiples of 1024 rows
	for (uint32_t k : hs) { if (!sw("heights", k)) continue; Tape t(tp); Pic p = gen_pic(t); p.h = 32 * k; p.rows.resize(size_t(p.h) * 32); for (size_t i = 0; i < p.rows.size(); ++i) p.rows[i] = uint8_t(i * 7 + k); picture_case(p, st); }
	// all one-bit neighbours of "PBMP" and a few signatures, at positions 0 and 5
	const uint8_t sig[4] = {'P', 'B', 'M', 'P'};
	for (unsigned pos : {0u, 5u}) for (int bit = -1; bit < 32; ++bit) { if (!sw("peek", pos, uint64_t(bit + 1))) continue; std::vector<uint8_t> s(sig, sig + 4); if (bit >= 0) s[bit / 8] ^= uint8_t(1u << (bit % 8)); signature_case(std::vector<uint8_t>(pos, 0xEE), s, {1, 2, 3}, st); }
	for (unsigned n = 0; n < 4; ++n) if (sw("peek_short", n)) signature_case({9}, std::vector<uint8_t>(sig, sig + n), {}, st);
	// every validated header field x boundary values
	{ Tape t(tp); Pic p = gen_pic(t); p.h = 64; p.rows.assign(64 * 32, 0x21);
	  for (size_t f : refgfx::tileset_fields()) for (uint32_t val : {0u, 1u, 2u, 4u, 8u, 16u, 31u, 32u, 33u, 64u, 96u, 1024u, 1048u, 2048u, 0x14u, 0x7FFFFFE0u, 0x80000000u, 0xFFFFFFE0u, 0xFFFFFFFFu, 0x10008u}) { if (!sw("perturb", f, val)) continue; perturbed_custom(p, f, val, st); } }
	for (unsigned k : {1u, 2u, 16u, 255u}) for (uint32_t tiles : {0u, 1u, 2u}) for (unsigned bu = 0; bu < 2; ++bu) { if (!sw("partial_palette", k, tiles, bu)) continue; Tape t(tp); Pic p = gen_pic(t); p.h = 32 * tiles; p.rows.assign(size_t(p.h) * 32, 0); for (size_t i = 0; i < p.rows.size(); ++i) p.rows[i] = uint8_t(i * 5 + k); partial_palette_case(p, k, bu, st); }
	for (unsigned depth : {0u, 1u, 2u, 4u, 16u, 24u, 32u}) for (unsigned layout = 0; layout < 8; ++layout) for (uint32_t tiles : {0u, 1u, 3u}) { if (!sw("depth_shaped", depth, layout, tiles)) continue; Tape t(tp); Pic p = gen_pic(t); p.h = 32 * tiles; p.rows.assign(size_t(p.h) * 32, 0x42); depth_shaped_case(p, depth, layout, st); }
	for (unsigned kind = 0; kind < 4; ++kind) for (uint64_t a : {uint64_t(0), uint64_t(31), uint64_t(33), uint64_t(0x1FF)}) if (sw("violating", kind, a)) violating_case(kind, a, st);
	for (uint64_t a = 0; a < 64; ++a) if (sw("violating_pair", a)) violating_case(4, a, st);
	for (uint64_t a = 0; a < 4096; a += 5) if (sw("violating_triple", a)) violating_case(5, a * 37, st);
	st.exhaustive = true;
}

void write_seeds(const std::string&) {}
