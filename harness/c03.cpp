// C03 — CLM pack -> reopen -> extract preserves every track's audio data and format.
#include "vol_common.h"
#include "ref/ref_clm.h"
#include "Archive/ClmFile.h"

using namespace verif;
using namespace OP2Utility::Archive;
const char* const PROP_ID = "C03";

namespace {
struct Wav { std::string base, ext, dir; refclm::WavSpec spec; std::vector<uint8_t> bytes; std::string path; };

// incl. tags that differ from "data" / "fmt " in ONE character (first, middle, last): the chunk search must compare whole tags
const char* extraTags[] = {"LIST", "cue ", "fact", "smpl", "JUNK", "abcd", "DATA", "Fmt ", "Data", "dmt ", "dat_", "fmt_", "dZta"};

std::string gen_base(Tape& t, size_t maxlen = 8) {
	size_t n = 1 + t.below(maxlen);
	std::string s;
	for (size_t i = 0; i < n; ++i) { uint8_t b = t.u8(); switch (b % 4) { case 0: s.push_back(char('a' + t.below(26))); break; case 1: s.push_back(char('A' + t.below(26))); break; case 2: s.push_back(char('0' + t.below(10))); break;
		default: if ((b & 0xF0) == 0xF0) s.push_back(b & 8 ? char(0xE9) : char(0xFF)); else if ((b & 0xF0) == 0xE0) s.push_back(" -!+,#&'()$%"[(b >> 2) & 3 ? (b >> 2) % 12 : 1]); else s.push_back('_'); break; } }   // rarely a byte >= 0x80 (a Latin-1 letter, 0xFF) or punctuation that sorts below '.'
	// one name in eight extends ... (see gen_set): stems that are prefixes of each other are where the order by stem and the order by file name part ways
	return s;
}

refclm::Chunk gen_chunk(Tape& t, bool afterData = false) {
	refclm::Chunk c; memcpy(c.tag, extraTags[t.below(13)], 5);
	c.body = t.bytes(2 * t.below(12));   // even-sized
	// one chunk in six carries a decoy: the bytes of a 'data' / 'fmt ' chunk header inside its payload (a search must walk the chunk chain, not scan bytes)
	if (t.below(6) == 0) { const char* d = t.flag() ? "data" : "fmt "; c.body.assign(d, d + 4); refvol::put32(c.body, uint32_t(t.below(40))); for (unsigned i = 0; i < 8; ++i) c.body.push_back(t.u8()); }
	// after the audio data a second 'data' or 'fmt ' chunk may follow: the first of each is the one that counts
	if (afterData && t.below(5) == 0) { memcpy(c.tag, t.flag() ? "data" : "fmt ", 5); c.body = t.bytes(2 * (8 + t.below(6))); }
	return c;
}

// which: 0 = the 'fmt ' header, 1 = the 'data' header, 2 = the header of an ordinary chunk between them starts at byte B + d
void align_header(refclm::WavSpec& sp, unsigned which, uint32_t B, int d, uint8_t fill) {
	auto len = [](const std::vector<refclm::Chunk>& cs) { size_t n = 0; for (auto& c : cs) n += 8 + c.body.size(); return n; };
	size_t target = size_t(int64_t(B) + d);
	refclm::Chunk filler; memcpy(filler.tag, "LIST", 5);
	if (which == 0) { size_t off = 12 + len(sp.beforeFmt); if (target < off + 8) return; filler.body.assign(target - off - 8, fill); sp.beforeFmt.push_back(filler); return; }
	if (which == 2) { refclm::Chunk c; memcpy(c.tag, "cue ", 5); c.body.assign(6, fill); sp.between.insert(sp.between.begin(), c); }
	size_t off = 12 + len(sp.beforeFmt) + 8 + (sp.fmt18 ? 18 : 16) + (which == 2 ? 0 : len(sp.between));
	if (target < off + 8) return;
	filler.body.assign(target - off - 8, fill);
	if (which == 2) sp.between.insert(sp.between.begin(), filler); else sp.between.push_back(filler);
}

Wav gen_wav(Tape& t, const refclm::WaveFormat& f, size_t maxData) {
	Wav w; w.base = gen_base(t);
	w.ext = t.pick<std::string>({".wav", ".WAV", ".Wav", ".wAv", ".wav", ".wav", "", ".wave", ".w", ".snd"});   // the base name is the file name without its last extension, whatever it is
	w.dir = t.pick<std::string>({"", "", "%d0/", "%d1/%sub/"});
	w.spec.fmt = f; w.spec.fmt18 = t.flag(); w.spec.cb = 0;
	size_t dl = t.pick<uint32_t>({0, 1, 2, 3, 7, 64, 100, 4096});
	if (t.flag()) dl = t.below(maxData + 1);
	w.spec.data = t.expand(dl); volgen::plant_format_bytes(w.spec.data);   // one in eight: audio bytes that look like RIFF/WAVE headers, chunk headers, the clump header ...
	if (dl >= 64 && (w.spec.data[6] & 15) == 1) { refclm::WavSpec inner; inner.fmt = f; inner.fmt18 = w.spec.data[7] & 1; inner.data.assign(w.spec.data.begin() + 48, w.spec.data.begin() + 56); auto nested = refclm::build_wav(inner); if (nested.size() <= dl) std::copy(nested.begin(), nested.end(), w.spec.data.begin()); }   // the audio data IS a complete WAV file (nested)
	unsigned nb = unsigned(t.below(3)), nm = unsigned(t.below(2)), na = unsigned(t.below(3));
	if (t.below(3) == 0) nb = nm = na = 0;
	for (unsigned i = 0; i < nb; ++i) w.spec.beforeFmt.push_back(gen_chunk(t));
	for (unsigned i = 0; i < nm; ++i) w.spec.between.push_back(gen_chunk(t));
	for (unsigned i = 0; i < na; ++i) w.spec.afterData.push_back(gen_chunk(t, true));
	// one file in eight places a chunk header at (or across) a boundary natural to buffered reading: a filler chunk is sized so that the
	// header of 'fmt ', of 'data', or of a skipped chunk starts at B-8 .. B+2 for B = 256 .. 65536
	if (t.below(8) == 0) align_header(w.spec, unsigned(t.below(3)), t.pick<uint32_t>({256, 512, 1024, 4096, 4096, 8192, 16384, 32768, 65536}), int(t.below(6)) * 2 - 8, t.u8());
	w.bytes = refclm::build_wav(w.spec);
	return w;
}

void place(std::vector<Wav>& ws) {
	volgen::root();
	for (auto& w : ws) { volgen::mkdirs("%in/" + w.dir); w.path = "%in/" + w.dir + w.base + w.ext; write_file(w.path, w.bytes); }
}
void unplace(const std::vector<Wav>& ws) { for (auto& w : ws) remove(w.path.c_str()); }

std::vector<uint8_t> slurp(const std::string& p) { std::vector<uint8_t> v; read_file(p, v); return v; }

void success_case(std::vector<Wav> ws, const refclm::WaveFormat& f, Tape& t, Stats& st, const unsigned* fixedOps = nullptr) {
	place(ws);
	std::vector<std::string> paths;
	for (auto& w : ws) { unsigned sp = unsigned(t.below(6)); std::string q = w.path; size_t ls = q.rfind('/');
		if (sp == 0 || sp == 1) q = "./" + q; else if (sp == 2 && ls != std::string::npos) q.insert(ls, "/"); else if (sp == 3 && ls != std::string::npos) q.insert(ls, "/."); else if (sp == 4) q = volgen::root() + "/" + q;   // x, ./x, d//x, d/./x, absolute
		paths.push_back(q); }
	for (size_t i = paths.size(); i > 1; --i) { size_t j = t.below(i); std::swap(paths[i - 1], paths[j]); }
	volgen::mkdirs("%o/"); std::string out = "%o/out.clm"; remove(out.c_str());
	if (t.below(3) == 0) write_file(out, std::vector<uint8_t>(300000, 0x6B));   // an older, longer file is replaced, not overwritten in place
	std::string what;
	Out o = guarded([&] { ClmFile::CreateArchive(out, paths); }, &what);
	V_CHECK(o == Out::Ok, "CreateArchive refused a legal WAV set (" << ws.size() << " files): " << what);
	for (auto& w : ws) V_CHECK(slurp(w.path) == w.bytes, "input WAV modified");
	// expected order; with bytes >= 0x80 in a name (their rank against ASCII is the implementation's choice, ref_vol.h) the written index is judged by
	// refvol::order_consistent inside the strict parser and the member-by-member checks follow its listing
	std::vector<size_t> idx(ws.size()); for (size_t i = 0; i < idx.size(); ++i) idx[i] = i;
	std::sort(idx.begin(), idx.end(), [&](size_t a, size_t b) { return refvol::icmp(ws[a].base, ws[b].base) < 0; });
	{ bool hi = false; for (auto& w : ws) if (refvol::has_high_byte(w.base)) hi = true;
	  if (hi) { std::vector<uint8_t> rawx = slurp(out); std::vector<std::string> listed; if (rawx.size() >= 60) { uint32_t cnt = refvol::get32(rawx, 56); for (uint32_t k = 0; k < cnt && 60 + 16 * size_t(k) + 16 <= rawx.size(); ++k) { std::string nm(reinterpret_cast<const char*>(&rawx[60 + 16 * size_t(k)]), 8); nm = nm.substr(0, nm.find('\0')); listed.push_back(nm); } }
	    V_CHECK(listed.size() == ws.size(), "CLM index lists " << listed.size() << " names for " << ws.size() << " inputs");
	    std::vector<char> used(ws.size(), 0); for (size_t k = 0; k < listed.size(); ++k) { bool ok = false; for (size_t i = 0; i < ws.size(); ++i) if (!used[i] && ws[i].base == listed[k]) { idx[k] = i; used[i] = 1; ok = true; break; } V_CHECK(ok, "CLM index lists " << jstr(listed[k]) << ", which is not the base name of an input (or is listed twice)"); }
	    st.cls("names_with_bytes_above_0x7F"); } }
	// raw bytes against the independent layout description
	std::vector<uint8_t> raw = slurp(out); refclm::WaveFormat hf; std::vector<refclm::Entry> ents;
	std::string err = refclm::parse_strict(raw, hf, ents);
	V_CHECK(err.empty(), "CLM written by the library is not well-formed: " << err << " (" << ws.size() << " tracks, " << raw.size() << " bytes)");
	V_CHECK(ents.size() == ws.size(), "CLM index has " << ents.size() << " entries for " << ws.size() << " inputs");
	if (!ws.empty()) V_CHECK(hf == f, "CLM header does not carry the common wave format");
	// a fresh object whose very FIRST call is one of the accessors (nothing an earlier call may have loaded or cached is there yet)
	volgen::mkdirs("%x/all/");
	if (!ws.empty()) { ClmFile fresh(out); size_t i = t.below(ws.size()); const Wav& w = ws[idx[i]]; unsigned op = unsigned(t.below(5));
		if (op == 0) { auto s = fresh.OpenStream(i); V_CHECK(s->Length() == w.spec.data.size(), "first call OpenStream(" << i << "): stream length " << s->Length() << " != data length " << w.spec.data.size()); std::vector<uint8_t> got(w.spec.data.size()); s->Read(got.data(), got.size()); V_CHECK(got == w.spec.data, "first call OpenStream(" << i << "): bytes differ"); }
		else if (op == 1) { std::string xp = "%x/first.wav"; fresh.ExtractFile(i, xp); refclm::WaveFormat xf; std::vector<uint8_t> xd; std::string e2 = refclm::parse_extracted(slurp(xp), xf, xd); V_CHECK(e2.empty() && xd == w.spec.data && xf == f, "first call ExtractFile(" << i << ") wrong: " << e2); remove(xp.c_str()); }
		else if (op == 2) V_CHECK(fresh.GetSize(i) == w.spec.data.size(), "first call GetSize(" << i << ")");
		else if (op == 3) V_CHECK(fresh.GetName(i) == w.base, "first call GetName(" << i << ")");
		else V_CHECK(fresh.GetIndex(w.base) == i && fresh.Contains(w.base), "first call GetIndex");
		st.cls("first_call:" + std::to_string(op)); }
	ClmFile c(out);
	V_CHECK(c.GetCount() == ws.size(), "GetCount " << c.GetCount() << " != " << ws.size());
	volgen::mkdirs("%x/all/");
	for (size_t i = 0; i < idx.size(); ++i) {
		const Wav& w = ws[idx[i]];
		V_CHECK(ents[i].name == w.base && c.GetName(i) == w.base, "member " << i << " named " << jstr(c.GetName(i)) << ", expected " << jstr(w.base) << " (case-insensitive order, extension stripped)");
		V_CHECK(ents[i].length == w.spec.data.size() && c.GetSize(i) == w.spec.data.size(), "member " << jstr(w.base) << " length " << c.GetSize(i) << " != audio data length " << w.spec.data.size() << " (chunks before/after data: " << w.spec.beforeFmt.size() << "/" << w.spec.afterData.size() << ")");
		V_CHECK(std::equal(w.spec.data.begin(), w.spec.data.end(), raw.begin() + ents[i].offset), "archive bytes at the recorded offset differ from the audio data of " << jstr(w.base));
		auto s = c.OpenStream(i);
		V_CHECK(s->Length() == w.spec.data.size(), "stream length " << s->Length() << " != data length");
		std::vector<uint8_t> got(w.spec.data.size()); s->Read(got.data(), got.size());
		V_CHECK(got == w.spec.data, "streamed bytes of " << jstr(w.base) << " differ from its audio data");
		std::string xp = "%x/one.wav"; c.ExtractFile(i, xp);
		refclm::WaveFormat xf; std::vector<uint8_t> xd;
		err = refclm::parse_extracted(slurp(xp), xf, xd);
		V_CHECK(err.empty(), "extracted WAV of " << jstr(w.base) << " is not self-consistent: " << err);
		V_CHECK(xf == f, "extracted WAV does not carry the common format");
		V_CHECK(xd == w.spec.data, "extracted WAV data differs (" << xd.size() << " vs " << w.spec.data.size() << " bytes)");
		V_CHECK(c.GetIndex(volgen::case_variant(w.base, t.u64())) == i, "GetIndex in another letter case");
	}
	c.ExtractAllFiles("%x/all");
	// fixpoint: packing the extracted WAVs (named by their base names) gives the same archive, byte for byte
	if (!ws.empty()) {
		std::vector<std::string> ex; for (auto& w : ws) ex.push_back("%x/all/" + w.base);
		for (size_t i = ex.size(); i > 1; --i) std::swap(ex[i - 1], ex[t.below(i)]);
		std::string out2 = "%o/repack.clm"; remove(out2.c_str());
		Out o2 = guarded([&] { ClmFile::CreateArchive(out2, ex); }, &what);
		V_CHECK(o2 == Out::Ok, "re-packing the extracted WAV files was refused: " << what);
		V_CHECK(slurp(out2) == raw, "re-packing the extracted WAV files does not reproduce the archive byte for byte");
		remove(out2.c_str());
	}
	for (auto& w : ws) { refclm::WaveFormat xf; std::vector<uint8_t> xd; err = refclm::parse_extracted(slurp("%x/all/" + w.base), xf, xd); V_CHECK(err.empty() && xd == w.spec.data && xf == f, "ExtractAllFiles output for " << jstr(w.base) << " wrong: " << err); remove(("%x/all/" + w.base).c_str()); }
	// a session of calls in tape-chosen (or enumerated) order on ONE archive object, refused calls included (vol_common.h)
	if (!ws.empty() && (fixedOps || !t.empty())) {
		std::vector<std::string> names; std::vector<std::vector<uint8_t>> streams; for (size_t i : idx) { names.push_back(ws[i].base); streams.push_back(ws[i].spec.data); }
		ClmFile c2(out);
		volgen::Session<ClmFile> se{c2, names, streams, [&](size_t i, const std::string& p) { refclm::WaveFormat xf; std::vector<uint8_t> xd; std::string e2 = refclm::parse_extracted(slurp(p), xf, xd); V_CHECK(e2.empty(), "session: WAV extracted for member " << i << " is not self-consistent: " << e2); V_CHECK(xf == f, "session: extracted WAV does not carry the common format"); V_CHECK(xd == streams[i], "session: WAV extracted for member " << i << " " << jstr(names[i]) << " carries other audio data (" << xd.size() << " vs " << streams[i].size() << " bytes)"); }, {}, {}, {}};
		if (fixedOps) { typedef volgen::Session<ClmFile> S; const unsigned ops[] = {S::ExtractGood, S::ExtractOntoDirectory, S::StreamWhole, S::StreamHold}; for (int k = 0; k < 3; ++k) se.step(ops[fixedOps[k] / 3], fixedOps[k] % 3, unsigned(k)); for (size_t i = 0; i < names.size(); ++i) { se.step(S::StreamWhole, i, 0); se.step(S::ExtractGood, i, 0); } se.finish(); }
		else se.run(t, st, unsigned(t.below(13)));
	}
	bool chunky = false; for (auto& w : ws) { if (!w.spec.afterData.empty()) { chunky = true; st.cls("src:chunk_after_data"); } if (!w.spec.beforeFmt.empty()) { chunky = true; st.cls("src:chunk_before_fmt"); } if (!w.spec.between.empty()) st.cls("src:chunk_between"); if (!w.spec.fmt18) st.cls("src:fmt16"); if (w.spec.data.size() & 1) st.cls("src:odd_data"); }
	st.cls("tracks:" + std::to_string(ws.size()));
	if (ws.size() >= 2 && chunky) { uint64_t h = 3; for (auto& w : ws) h = fnv1a(w.bytes.data(), w.bytes.size(), fnv1a(w.base.data(), w.base.size(), h)); st.nt(h); }
	unplace(ws); remove(out.c_str());
}

void refusal_case(std::vector<Wav> ws, const char* why, Stats& st) {
	place(ws);
	std::vector<std::string> paths; for (auto& w : ws) paths.push_back(w.path);
	volgen::mkdirs("%o/"); std::string out = "%o/bad.clm"; remove(out.c_str());
	Out o = guarded([&] { ClmFile::CreateArchive(out, paths); });
	V_CHECK(o == Out::Err, "CreateArchive accepted an invalid WAV set: " << why);
	for (auto& w : ws) V_CHECK(slurp(w.path) == w.bytes, "input modified by refused creation");
	st.cls(std::string("refusal:") + why);
	uint64_t h = fnv1a(why, strlen(why)); for (auto& w : ws) h = fnv1a(w.base.data(), w.base.size(), h); st.nt(h ^ 0x9);
	unplace(ws); remove(out.c_str());
}

refclm::WaveFormat gen_fmt(Tape& t) {
	if (t.below(3) == 0) return {1, 1, 22050, 44100, 2, 16};
	return {t.u16(), t.u16(), t.u32(), t.u32(), t.u16(), t.u16()};
}

std::vector<Wav> gen_set(Tape& t, const refclm::WaveFormat& f, size_t maxn, size_t maxData) {
	std::vector<Wav> ws; size_t n = t.below(maxn + 1);
	for (size_t i = 0; i < n; ++i) {
		Wav w = gen_wav(t, f, maxData);
		// one later stem in five extends an earlier one by punctuation or a byte on either side of '.' (the stems a, a-b, a b, a_b, a\xFF ...)
		if (i && t.below(5) == 0) { const std::string& b0 = ws[t.below(ws.size())].base; if (b0.size() <= 6) { w.base = volgen::case_variant(b0, t.u8()) + t.pick<std::string>({"-", " ", "!", "+", ",", "_", "0", "-b", " b", "\xFF", "\xE9", "(", "#"}); w.path.clear(); } }
		bool clash; do { clash = false; for (auto& g : ws) if (refvol::ieq(g.base, w.base)) { clash = true; if (w.base.size() >= 8) w.base.resize(6); w.base += char('0' + i); } } while (clash);
		ws.push_back(w);
	}
	return ws;
}
} // namespace

void run_case(Tape& t, Stats& st) {
	volgen::root();
	unsigned mode = unsigned(t.below(10));
	refclm::WaveFormat f = gen_fmt(t);
	size_t maxData = g_thorough ? 200000 : 4096;
	std::vector<Wav> ws = gen_set(t, f, 8, maxData);
	if (st.want_sample()) { std::string s = "{\"mode\":" + std::to_string(mode) + ",\"tracks\":["; for (size_t i = 0; i < ws.size() && i < 5; ++i) s += std::string(i ? "," : "") + "{\"name\":" + jstr(ws[i].dir + ws[i].base + ws[i].ext) + ",\"data\":" + std::to_string(ws[i].spec.data.size()) + ",\"chunks\":[" + std::to_string(ws[i].spec.beforeFmt.size()) + "," + std::to_string(ws[i].spec.between.size()) + "," + std::to_string(ws[i].spec.afterData.size()) + "],\"fmt18\":" + (ws[i].spec.fmt18 ? "true" : "false") + "}"; st.sample(s + "]}"); }
	switch (mode) {
	case 0: { Wav w = gen_wav(t, f, 64); w.base = gen_base(t, 1) + "12345678"; w.bytes = refclm::build_wav(w.spec); ws.insert(ws.begin() + t.below(ws.size() + 1), w); refusal_case(ws, "name_longer_than_8", st); break; }
	case 1: { Wav a = gen_wav(t, f, 64); for (auto it = ws.begin(); it != ws.end();) { if (refvol::ieq(it->base, a.base)) it = ws.erase(it); else ++it; }
		Wav b = gen_wav(t, f, 64); b.base = volgen::case_variant(a.base, t.u64()); if (b.base == a.base && b.ext == a.ext) b.dir = a.dir.empty() ? "%d0/" : ""; else if (b.base == a.base) { /* differs in extension case only */ }
		ws.push_back(a); ws.insert(ws.begin() + t.below(ws.size() + 1), b); refusal_case(ws, "duplicate_names_ignoring_case", st); break; }
	case 4: { // duplicate base names that are NOT neighbours when the files are ordered by their full names: b.1 < b.5.wav < b.9 (base names b, b.5, b)
		std::string b = gen_base(t, 6); for (auto it = ws.begin(); it != ws.end();) { if (refvol::ieq(it->base, b) || refvol::ieq(it->base, b + ".5")) it = ws.erase(it); else ++it; }
		Wav w1 = gen_wav(t, f, 64), w2 = gen_wav(t, f, 64), w3 = gen_wav(t, f, 64);
		w1.base = b; w1.ext = ".1"; w2.base = b + ".5"; w2.ext = ".wav"; w3.base = volgen::case_variant(b, t.u8()); w3.ext = ".9"; w1.dir = w2.dir = w3.dir = "";
		ws.insert(ws.begin() + t.below(ws.size() + 1), w1); ws.insert(ws.begin() + t.below(ws.size() + 1), w2); ws.insert(ws.begin() + t.below(ws.size() + 1), w3);
		refusal_case(ws, "duplicate_names_separated_by_a_dotted_name", st); break; }
	case 2: { if (ws.empty()) ws.push_back(gen_wav(t, f, 64)); refclm::WaveFormat g = f; switch (t.below(6)) { case 0: g.formatTag ^= 1; break; case 1: g.channels += 1; break; case 2: g.samplesPerSec ^= 0x100; break; case 3: g.avgBytesPerSec += 1; break; case 4: g.blockAlign ^= 2; break; default: g.bitsPerSample += 8; break; }
		Wav w = gen_wav(t, g, 64); for (auto& x : ws) if (refvol::ieq(x.base, w.base)) w.base = "zz" + std::to_string(t.below(90)); ws.insert(ws.begin() + t.below(ws.size() + 1), w); refusal_case(ws, "format_mismatch", st); break; }
	case 3: { Wav w = gen_wav(t, f, 64); for (auto& x : ws) if (refvol::ieq(x.base, w.base)) w.base = "qq" + std::to_string(t.below(90));
		{ auto& ad = w.spec.afterData; for (auto it = ad.begin(); it != ad.end();) { if (!memcmp(it->tag, "fmt ", 4) || !memcmp(it->tag, "data", 4)) it = ad.erase(it); else ++it; } w.bytes = refclm::build_wav(w.spec); }   // the malformed file must not carry a second 'fmt '/'data' chunk that would make it well-formed again
		const char* why;
		switch (t.below(5)) { case 0: w.bytes[0] = 'X'; why = "not_riff"; break; case 1: w.bytes[8] = 'w'; why = "not_wave"; break; case 2: w.bytes.resize(t.below(std::min<size_t>(w.bytes.size(), 20))); why = "truncated_header"; break; case 3: w.bytes.push_back(0); w.bytes.push_back(0); why = "riff_size_mismatch"; break; default: { size_t p = 12; for (auto& c : w.spec.beforeFmt) p += 8 + c.body.size(); w.bytes[p] = 'g'; why = "no_fmt_chunk"; break; } }
		ws.insert(ws.begin() + t.below(ws.size() + 1), w); refusal_case(ws, why, st); break; }
	default: success_case(ws, f, t, st); break;
	}
}

void run_sweep(Stats& st) {
	volgen::root();
	std::vector<uint8_t> tp(64, 0);
	refclm::WaveFormat f{1, 2, 44100, 176400, 4, 16};
	// every combination of chunk placement (before fmt, between, after data) x fmt size x data length parity x 1..3 tracks
	for (unsigned placement = 0; placement < 8; ++placement) for (unsigned fmt18 = 0; fmt18 < 2; ++fmt18) for (unsigned dlen : {0u, 1u, 2u, 5u, 4096u}) for (unsigned ntracks = 1; ntracks <= 3; ++ntracks) {
		if (!sw("layout", placement, fmt18, dlen, ntracks)) continue;
		std::vector<Wav> ws;
		for (unsigned i = 0; i < ntracks; ++i) {
			Wav w; w.base = std::string(1, char(i % 2 ? 'b' + i : 'A' + i)) + "_trk" + char('0' + i); w.ext = i % 2 ? ".WAV" : ".wav"; w.dir = i == 2 ? "%d0/" : "";
			w.spec.fmt = f; w.spec.fmt18 = fmt18; w.spec.data.resize(dlen + i); for (size_t k = 0; k < w.spec.data.size(); ++k) w.spec.data[k] = uint8_t(k * 3 + i);
			refclm::Chunk c; memcpy(c.tag, "LIST", 5); c.body = {1, 2, 3, 4, 5, 6};
			if (placement & 1) w.spec.beforeFmt.push_back(c);
			if (placement & 2) w.spec.between.push_back(c);
			if (placement & 4) { w.spec.afterData.push_back(c); memcpy(c.tag, "cue ", 5); w.spec.afterData.push_back(c); }
			w.bytes = refclm::build_wav(w.spec); ws.push_back(w);
		}
		Tape t(tp); success_case(ws, f, t, st);
	}
	// audio data around one and two stream-copy chunks (128 KiB), followed by another track so that a short or long copy shifts it
	for (unsigned dlen : {131071u, 131072u, 131073u, 262143u, 262144u, 262145u, 393216u}) for (unsigned after = 0; after < 2; ++after) {
		if (!sw("copy_chunk", dlen, after)) continue;
		std::vector<Wav> ws;
		for (unsigned i = 0; i < 2; ++i) {
			Wav w; w.base = i ? "zz_tail" : "Big"; w.ext = ".wav"; w.dir = "";
			w.spec.fmt = f; w.spec.fmt18 = true; w.spec.data.resize(i ? 9 : dlen); for (size_t k = 0; k < w.spec.data.size(); ++k) w.spec.data[k] = uint8_t(k ^ (k >> 8) ^ (k >> 15) ^ i);
			if (after) { refclm::Chunk c; memcpy(c.tag, "LIST", 5); c.body = {1, 2, 3, 4}; w.spec.afterData.push_back(c); }
			w.bytes = refclm::build_wav(w.spec); ws.push_back(w);
		}
		Tape t(tp); success_case(ws, f, t, st);
	}
	// a chunk header starting at B-8 .. B+2 for the buffer-like sizes B (header wholly before, across, wholly after the boundary), for the
	// 'fmt ' header, the 'data' header and the header of a skipped chunk; a second track follows so that a wrong length shifts it
	for (uint32_t B : {256u, 512u, 1024u, 2048u, 4096u, 8192u, 16384u, 32768u, 65536u}) for (unsigned dd = 0; dd < 6; ++dd) for (unsigned which = 0; which < 3; ++which) {
		if (!sw("header_at", B, dd, which)) continue;
		std::vector<Wav> ws;
		for (unsigned i = 0; i < 2; ++i) {
			Wav w; w.base = i ? "tail" : "Aligned"; w.ext = ".wav"; w.dir = ""; w.spec.fmt = f; w.spec.fmt18 = (dd + which) & 1; w.spec.data.resize(i ? 5 : 70000); for (size_t k = 0; k < w.spec.data.size(); ++k) w.spec.data[k] = uint8_t(k * 3 ^ (k >> 8) ^ i);
			if (!i) align_header(w.spec, which, B, int(dd) * 2 - 8, uint8_t(0x77));
			w.bytes = refclm::build_wav(w.spec); ws.push_back(w);
		}
		Tape t(tp); success_case(ws, f, t, st);
	}
	// audio data that ends in (or is) a long block of zeros - silence - in the last track and in a middle one
	for (unsigned v = 0; v < 4; ++v) { if (!sw("silence", v)) continue;
		std::vector<Wav> ws;
		for (unsigned i = 0; i < 3; ++i) { Wav w; w.base = std::string(1, char('k' + i)) + "_sil"; w.ext = ".wav"; w.dir = ""; w.spec.fmt = f; w.spec.fmt18 = i & 1; w.spec.data.resize(30 + i); for (size_t k = 0; k < w.spec.data.size(); ++k) w.spec.data[k] = uint8_t(k + 3 * i + 1);
			if (i == (v & 1 ? 1u : 2u)) { size_t head = v & 2 ? 3000 : 0; w.spec.data.assign(head + 8192, 0); for (size_t k = 0; k < head; ++k) w.spec.data[k] = uint8_t(k * 11 + 7); }
			w.bytes = refclm::build_wav(w.spec); ws.push_back(w); }
		Tape t(tp); success_case(ws, f, t, st); }
	// long chunk chains and a large chunk after the data
	for (unsigned variant = 0; variant < 3; ++variant) {
		if (!sw("chunk_chain", variant)) continue;
		std::vector<Wav> ws;
		for (unsigned i = 0; i < 2; ++i) {
			Wav w; w.base = i ? "second" : "First"; w.ext = ".wav"; w.dir = ""; w.spec.fmt = f; w.spec.fmt18 = variant != 1; w.spec.data.assign(2 + i, uint8_t(0x40 + i));
			refclm::Chunk c; memcpy(c.tag, "JUNK", 5);
			if (variant == 0) { for (unsigned k = 0; k < 60; ++k) { c.body.assign(2 * (k % 4), uint8_t(k)); w.spec.beforeFmt.push_back(c); w.spec.between.push_back(c); } }
			if (variant >= 1) { c.body.assign(200000, 0xEE); w.spec.afterData.push_back(c); }
			w.bytes = refclm::build_wav(w.spec); ws.push_back(w);
		}
		Tape t(tp); success_case(ws, f, t, st);
	}
	// every three-call session over {extract, extract onto a directory, stream, stream kept open} x three tracks on one archive object
	for (unsigned x = 0; x < 12; ++x) for (unsigned y = 0; y < 12; ++y) for (unsigned z = 0; z < 12; ++z) {
		if (!sw("session3", x, y, z)) continue;
		std::vector<Wav> ws;
		for (unsigned i = 0; i < 3; ++i) { Wav w; w.base = std::string(1, char('p' + i)) + "_s"; w.ext = ".wav"; w.dir = ""; w.spec.fmt = f; w.spec.fmt18 = i & 1; w.spec.data.resize(i == 1 ? 8 : 5 + i); for (size_t k = 0; k < w.spec.data.size(); ++k) w.spec.data[k] = uint8_t(16 * (i + 1) + k); w.bytes = refclm::build_wav(w.spec); ws.push_back(w); }
		const unsigned ops[3] = {x, y, z}; Tape t(tp); success_case(ws, f, t, st, ops);
	}
	// stems that are prefixes of one another, extended by characters on either side of '.' in the byte order: the index is ordered by STEM
	for (unsigned k = 0; k < 14; ++k) { if (!sw("prefix_stems", k)) continue;
		const char* ext[14] = {"-b", " b", "!", "+", ",", "#", "(", "_b", "0", "b", "\xFF", "\xE9", "-", "$"};
		std::vector<Wav> ws; const std::string stems[3] = {"a", std::string("a") + ext[k], std::string("A") + ext[(k + 1) % 14]};
		for (unsigned i = 0; i < 3; ++i) { if (i == 2 && refvol::ieq(stems[2], stems[1])) continue; Wav w; w.base = stems[i]; w.ext = i == 1 ? ".WAV" : ".wav"; w.dir = ""; w.spec.fmt = f; w.spec.data.assign(3 + i, uint8_t(0x21 + i)); w.bytes = refclm::build_wav(w.spec); ws.push_back(w); }
		Tape t(tp); success_case(ws, f, t, st); }
	if (sw("dup_dotted")) { std::vector<Wav> ws; const char* names[3][2] = {{"a", ".1"}, {"a.5", ".wav"}, {"a", ".9"}};
		for (auto& n : names) { Wav w; w.base = n[0]; w.ext = n[1]; w.dir = ""; w.spec.fmt = f; w.spec.data = {1, 2, 3, 4}; w.bytes = refclm::build_wav(w.spec); ws.push_back(w); }
		refusal_case(ws, "duplicate_names_separated_by_a_dotted_name", st); }
	if (sw("empty_set")) { Tape t(tp); success_case({}, f, t, st); }
	// names of exactly 8 and 9 characters
	for (unsigned len = 7; len <= 10; ++len) { if (!sw("name_len", len)) continue; Wav w; w.base = std::string(len, 'n'); w.ext = ".wav"; w.spec.fmt = f; w.spec.data = {1, 2, 3, 4}; w.bytes = refclm::build_wav(w.spec); Tape t(tp); if (len <= 8) success_case({w}, f, t, st); else refusal_case({w}, "name_longer_than_8", st); }
	st.exhaustive = true;
}

void write_seeds(const std::string&) {}
