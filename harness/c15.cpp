// C15 — adaptive Huffman tree stays a valid code equal to the reference on every history.
#include "common/verif.h"
#include "ref/ref_lzh.h"
#include "Archive/VolFile.h"   // pulls in AdaptiveHuffmanTree.h (no include guards there)

using namespace verif;
using namespace OP2Utility::Archive;
using reflzh::RefHuff;
const char* const PROP_ID = "C15";

namespace {
struct Snap { std::vector<int> shape; std::vector<std::pair<unsigned, unsigned>> codes; bool operator==(const Snap& o) const { return shape == o.shape && codes == o.codes; } };

// Walk library and reference trees together.  Returns the pre-order shape (-1 = inner, else symbol).
void walk(AdaptiveHuffmanTree& t, const RefHuff& r, unsigned libNode, int refNode, int depth, std::vector<int>& shape, std::vector<int>& seenDepth, unsigned& nodes, const std::string& ctx) {
	V_CHECK(depth <= 2 * r.n, "tree walk deeper than the node count (cycle?) " << ctx);
	++nodes;
	bool ll = t.IsLeaf(uint16_t(libNode)), rl = r.is_leaf(refNode);
	V_CHECK(ll == rl, "shape differs from the reference at depth " << depth << ": library " << (ll ? "leaf" : "inner") << ", reference " << (rl ? "leaf" : "inner") << " " << ctx);
	if (ll) {
		int sym = t.GetNodeData(uint16_t(libNode));
		V_CHECK(sym >= 0 && sym < r.n, "leaf holds symbol " << sym << " outside 0.." << r.n - 1 << " " << ctx);
		V_CHECK(sym == r.symbol(refNode), "leaf at depth " << depth << " holds symbol " << sym << ", reference has " << r.symbol(refNode) << " " << ctx);
		V_CHECK(seenDepth[sym] < 0, "symbol " << sym << " sits on two leaves " << ctx);
		seenDepth[sym] = depth;
		shape.push_back(sym);
		return;
	}
	shape.push_back(-1);
	walk(t, r, t.GetChildNode(uint16_t(libNode), false), r.child(refNode, false), depth + 1, shape, seenDepth, nodes, ctx);
	walk(t, r, t.GetChildNode(uint16_t(libNode), true), r.child(refNode, true), depth + 1, shape, seenDepth, nodes, ctx);
}

// The way a compressor uses the tree: only the symbol about to be coded is asked for (no other query in between).  Its bit string, read in ONE
// bit order for the whole history (order: -1 undecided, 0 LSB-first, 1 MSB-first), must drive the walk from the root to the leaf holding it.
void single_symbol_check(AdaptiveHuffmanTree& t, int sym, int& order, const std::string& ctx) {
	unsigned bc = 0; unsigned bits = t.GetEncodedBitString(uint16_t(sym), bc);
	V_CHECK(bc >= 1 && bc <= 32, "encoded length " << bc << " of symbol " << sym << " " << ctx);
	bool ok[2];
	for (int o = 0; o < 2; ++o) {
		unsigned node = t.GetRootNodeIndex(); bool good = true;
		for (unsigned k = 0; k < bc && good; ++k) { if (t.IsLeaf(uint16_t(node))) { good = false; break; } bool bit = o == 0 ? ((bits >> k) & 1) : ((bits >> (bc - 1 - k)) & 1); node = t.GetChildNode(uint16_t(node), bit); }
		ok[o] = good && t.IsLeaf(uint16_t(node)) && t.GetNodeData(uint16_t(node)) == sym;
	}
	if (order < 0) { V_CHECK(ok[0] || ok[1], "the bit string of symbol " << sym << " (" << bits << "/" << bc << ") does not lead to its leaf in either bit order " << ctx); if (ok[0] != ok[1]) order = ok[0] ? 0 : 1; }
	else V_CHECK(ok[order], "the bit string of symbol " << sym << " (" << bits << "/" << bc << ") does not lead to its leaf (bit order as established earlier in this history) " << ctx);
}

Snap check_tree(AdaptiveHuffmanTree& t, const RefHuff& r, const std::string& ctx) {
	Snap s;
	std::vector<int> seenDepth(r.n, -1); unsigned nodes = 0;
	walk(t, r, t.GetRootNodeIndex(), r.R, 0, s.shape, seenDepth, nodes, ctx);
	V_CHECK(nodes == unsigned(2 * r.n - 1), "reachable nodes " << nodes << " != 2n-1 = " << 2 * r.n - 1 << " " << ctx);
	for (int sym = 0; sym < r.n; ++sym) V_CHECK(seenDepth[sym] >= 0, "symbol " << sym << " not on any leaf " << ctx);
	// encoder: bit string of every symbol drives the decoder's walk to that symbol's leaf, one bit order per tree
	bool okLsb = true, okMsb = true; std::string why;
	for (int sym = 0; sym < r.n; ++sym) {
		unsigned bc = 0; unsigned bits = t.GetEncodedBitString(uint16_t(sym), bc);
		s.codes.push_back({bits, bc});
		V_CHECK(int(bc) == seenDepth[sym], "encoded length " << bc << " of symbol " << sym << " != depth of its leaf " << seenDepth[sym] << " " << ctx);
		V_CHECK(bc <= 32, "encoded length over 32");
		for (int order = 0; order < 2; ++order) {
			unsigned node = t.GetRootNodeIndex(); bool ok = true;
			for (unsigned k = 0; k < bc && ok; ++k) {
				if (t.IsLeaf(uint16_t(node))) { ok = false; break; }
				bool bit = order == 0 ? ((bits >> k) & 1) : ((bits >> (bc - 1 - k)) & 1);
				node = t.GetChildNode(uint16_t(node), bit);
			}
			ok = ok && t.IsLeaf(uint16_t(node)) && t.GetNodeData(uint16_t(node)) == sym;
			if (!ok) { (order == 0 ? okLsb : okMsb) = false; if (why.empty()) why = "symbol " + std::to_string(sym) + " bits " + std::to_string(bits) + "/" + std::to_string(bc); }
		}
	}
	V_CHECK(okLsb || okMsb, "encoder bit strings do not lead the decoder to their symbols in either bit order (first: " << why << ") " << ctx);
	return s;
}

void expect_refusal(AdaptiveHuffmanTree& t, const RefHuff& r, const std::string& ctx, Stats& st) {
	Snap before = check_tree(t, r, ctx);
	for (unsigned bad : {unsigned(r.n), unsigned(r.n + 1), 65535u, unsigned(2 * r.n - 1), 65534u, unsigned(65536 - r.n), unsigned(65536 - (2 * r.n - 1)), unsigned(65536 - 2 * r.n), 32768u, unsigned(32768 + r.n)}) {
		if (bad > 65535) continue;
		if (bad >= unsigned(r.n)) {
			Out o = guarded([&] { t.UpdateCodeCount(uint16_t(bad)); });
			V_CHECK(o == Out::Err, "update with out-of-range symbol " << bad << " accepted " << ctx);
			unsigned bc;
			o = guarded([&] { t.GetEncodedBitString(uint16_t(bad), bc); });
			V_CHECK(o == Out::Err, "encoding of out-of-range symbol " << bad << " accepted " << ctx);
		}
	}
	for (unsigned bad : {unsigned(2 * r.n - 1), unsigned(2 * r.n), 65535u}) {
		if (bad > 65535) continue;
		V_CHECK(guarded([&] { t.IsLeaf(uint16_t(bad)); }) == Out::Err, "IsLeaf(" << bad << ") beyond the node range accepted " << ctx);
		V_CHECK(guarded([&] { t.GetChildNode(uint16_t(bad), false); }) == Out::Err, "GetChildNode(" << bad << ") accepted " << ctx);
		V_CHECK(guarded([&] { t.GetNodeData(uint16_t(bad)); }) == Out::Err, "GetNodeData(" << bad << ") accepted " << ctx);
	}
	Snap after = check_tree(t, r, ctx);
	V_CHECK(before == after, "refused calls changed the tree " << ctx);
	st.cls("refusal_block");
}

int next_symbol(unsigned dist, unsigned n, uint64_t i, Tape& t, uint64_t& state) {
	switch (dist) {
	case 0: return int(t.below(n));                                   // uniform from the tape
	case 1: { unsigned a = unsigned(t.below(n)), b = unsigned(t.below(n)); return int(std::min(a, b) % n); } // skewed to small
	case 2: return int(state % n);                                    // single symbol (state fixed)
	case 3: return int(i % n);                                        // round robin
	case 4: { uint64_t period = 2 + state % 13; return int((i % period) * (state | 1) % n); } // sawtooth
	default: { state ^= state << 13; state ^= state >> 7; state ^= state << 17; return int((state >> 20) % n); } // prng from tape seed
	}
}
} // namespace

void run_case(Tape& t, Stats& st) {
	unsigned n = t.pick<uint32_t>({2, 3, 4, 5, 6, 7, 8, 16, 31, 32, 33, 64, 100, 255, 256, 313, 314});
	if (t.below(4) == 0) n = 2 + unsigned(t.below(313));
	unsigned dist = unsigned(t.below(6));
	uint64_t state = t.u64() | 1;
	unsigned len = 1 + unsigned(t.below(g_thorough ? 20000 : 5000));
	if (t.below(3) == 0) len = 1 + unsigned(t.below(64));
	unsigned every = std::max(1u, len / 48);
	AdaptiveHuffmanTree tree{uint16_t(n)};
	RefHuff ref{int(n)};
	V_CHECK(tree.TerminalNodeCount() == n, "TerminalNodeCount");
	std::string ctx = "[n=" + std::to_string(n) + " dist=" + std::to_string(dist) + " len=" + std::to_string(len) + "]";
	Snap prev = check_tree(tree, ref, ctx + " initial");
	bool shapeChanged = false; uint64_t h = hmix(n, dist);
	// half of the histories are driven the way a compressor drives the tree: before each update only THAT symbol's bit string is asked for, and the
	// whole-tree comparison (which asks for every symbol) runs only at the end
	const bool encoderStyle = (state >> 13) & 1; int order = -1; if (encoderStyle) { every = len + 1; st.cls("encoder_style_history"); }
	for (unsigned i = 0; i < len; ++i) {
		int sym = next_symbol(dist, n, i, t, state);
		if (encoderStyle) single_symbol_check(tree, sym, order, ctx + " before update " + std::to_string(i));
		if ((i & 63) == 17 && (state >> 5) % 3 == 0) {   // a refused call in the middle of the history: afterwards everything goes on as if it had not been made
			unsigned bad = (state >> 9) % 4 == 0 ? 65535u : (state >> 9) % 4 == 1 ? unsigned(65536 - n) : unsigned(n + (state >> 11) % 3);
			V_CHECK(guarded([&] { tree.UpdateCodeCount(uint16_t(bad)); }) == Out::Err, "update with out-of-range symbol " << bad << " accepted in mid-history " << ctx);
			unsigned bcx = 0; V_CHECK(guarded([&] { tree.GetEncodedBitString(uint16_t(bad), bcx); }) == Out::Err, "encoding of out-of-range symbol " << bad << " accepted in mid-history " << ctx);
			st.cls("mid_history_refusal");
		}
		h = hmix(h, uint64_t(sym));
		tree.UpdateCodeCount(uint16_t(sym));
		ref.update(sym);
		if (i % every == 0 || i + 1 == len) {
			Snap s = check_tree(tree, ref, ctx + " after update " + std::to_string(i) + " (symbol " + std::to_string(sym) + ")");
			if (s.shape != prev.shape) shapeChanged = true;
			prev = std::move(s);
		}
	}
	if (t.below(8) == 0) expect_refusal(tree, ref, ctx, st);
	st.cls("dist:" + std::to_string(dist));
	st.cls(n <= 6 ? "n:2-6" : n < 314 ? "n:7-313" : "n:314");
	if (shapeChanged) st.nt(h);
	if (st.want_sample()) st.sample("{\"n\":" + std::to_string(n) + ",\"distribution\":" + std::to_string(dist) + ",\"updates\":" + std::to_string(len) + ",\"shape_changed\":" + (shapeChanged ? "true" : "false") + "}");
}

namespace {
void dfs(AdaptiveHuffmanTree& t, RefHuff& r, unsigned depth, unsigned maxd, std::string& path, Stats& st, const std::vector<int>& rootShape) {
	if (depth == maxd) return;
	for (int sym = 0; sym < r.n; ++sym) {
		AdaptiveHuffmanTree t2 = t; RefHuff r2 = r;
		t2.UpdateCodeCount(uint16_t(sym)); r2.update(sym);
		path.push_back(char('0' + sym));
		Snap s = check_tree(t2, r2, "[n=" + std::to_string(r.n) + " sequence " + path + "]");
		++st.evaluations;
		if (s.shape != rootShape) st.nt(fnv1a(path.data(), path.size(), uint64_t(r.n)));
		dfs(t2, r2, depth + 1, maxd, path, st, rootShape);
		path.pop_back();
	}
}

// refusals > 0: that many refused calls (out-of-range symbols; they change nothing, so they must not use up capacity either) are spread over the
// run - the tree must still take exactly 65535 - n updates
void capacity_run(unsigned n, unsigned pattern, Stats& st, unsigned refusals = 0) {
	AdaptiveHuffmanTree tree{uint16_t(n)}; RefHuff ref{int(n)};
	uint64_t cap = 65535 - n;
	std::string ctx = "[capacity run n=" + std::to_string(n) + " pattern=" + std::to_string(pattern) + (refusals ? " with " + std::to_string(refusals) + " refused calls on the way" : std::string()) + "]";
	uint64_t s = 88172645463325252ULL + n;
	uint64_t refEvery = refusals ? std::max<uint64_t>(1, cap / refusals) : 0, refused = 0;
	for (uint64_t i = 0; i < cap; ++i) {
		if (refEvery && refused < refusals && (i % refEvery == refEvery / 2 || i + (refusals - refused) >= cap)) {
			unsigned bad = (refused & 1) ? 65535u : n + unsigned(refused % 3);
			Out ob = guarded([&] { tree.UpdateCodeCount(uint16_t(bad)); });
			V_CHECK(ob == Out::Err, "update with out-of-range symbol " << bad << " accepted " << ctx);
			++refused;
		}
		int sym;
		if (pattern == 0) sym = int(i % n); else if (pattern == 1) sym = 0; else { s ^= s << 13; s ^= s >> 7; s ^= s << 17; sym = int((s >> 16) % n); }
		Out o = guarded([&] { tree.UpdateCodeCount(uint16_t(sym)); });
		V_CHECK(o == Out::Ok, "update " << i + 1 << " of " << cap << " (within capacity) refused " << ctx);
		ref.update(sym);
		if (i % 4099 == 0 || i + 3 >= cap) check_tree(tree, ref, ctx + " after update " + std::to_string(i + 1));
	}
	V_CHECK(ref.at_capacity(), "reference not at capacity after " << cap << " updates");
	Snap before = check_tree(tree, ref, ctx + " at capacity");
	for (int k = 0; k < 3; ++k) {
		int sym = int((k * 7) % n);
		Out o = guarded([&] { tree.UpdateCodeCount(uint16_t(sym)); });
		V_CHECK(o == Out::Err, "update number " << cap + 1 << " (beyond the capacity of the 16-bit counters) was accepted " << ctx);
		Snap after = check_tree(tree, ref, ctx + " after refused update");
		V_CHECK(before == after, "refused update at capacity changed the tree " << ctx);
	}
	expect_refusal(tree, ref, ctx, st);
	st.cls(refusals ? "capacity_run_with_refused_calls_on_the_way" : "capacity_run");
	st.nt(hmix(n, pattern + 16 * refusals) ^ 0xCA);
}
// one symbol far ahead of everything else (its lead passing 2^15 and approaching 2^16), then cold symbols: differences of counts that do not
// fit a signed or a narrower type, a hot leaf directly under the root while other leaves move
void hot_cold_run(unsigned n, unsigned hot, unsigned lead, Stats& st) {
	AdaptiveHuffmanTree tree{uint16_t(n)}; RefHuff ref{int(n)};
	std::string ctx = "[hot/cold run n=" + std::to_string(n) + " hot=" + std::to_string(hot) + " lead=" + std::to_string(lead) + "]";
	for (unsigned i = 0; i < lead; ++i) { tree.UpdateCodeCount(uint16_t(hot)); ref.update(int(hot)); if (i % 8191 == 0) check_tree(tree, ref, ctx + " during the hot phase"); }
	check_tree(tree, ref, ctx + " after the hot phase");
	uint64_t s = 1234567 + n + lead;
	for (unsigned k = 0; k < 24 && !ref.at_capacity(); ++k) {
		s ^= s << 13; s ^= s >> 7; s ^= s << 17;
		unsigned sym = k < 8 ? (hot + 1 + k) % n : unsigned((s >> 16) % n);
		tree.UpdateCodeCount(uint16_t(sym)); ref.update(int(sym));
		check_tree(tree, ref, ctx + " after cold update " + std::to_string(k + 1) + " (symbol " + std::to_string(sym) + ")");
		if (k % 5 == 4 && !ref.at_capacity()) { tree.UpdateCodeCount(uint16_t(hot)); ref.update(int(hot)); check_tree(tree, ref, ctx + " after a hot update between cold ones"); }
	}
	st.cls("hot_cold_run"); st.nt(hmix(n * 70000 + lead, hot) ^ 0x4C);
}

// histories that make the tree as deep as the counters allow: k 'chain' symbols receive Fibonacci multiples of the weight R of
// all remaining symbols (ascending), which stacks them one per level above the rest; codes of 17..22 bits arise within capacity
void deep_run(unsigned n, unsigned order, Stats& st) {
	AdaptiveHuffmanTree tree{uint16_t(n)}; RefHuff ref{int(n)};
	unsigned k = std::min(n - 2, 22u); uint64_t R = n - k;
	std::string ctx = "[deep run n=" + std::to_string(n) + " order=" + std::to_string(order) + "]";
	std::vector<uint64_t> w;
	for (; k >= 1; --k) {   // largest chain length whose weights fit the counters; R = weight of all other symbols
		R = n - k; w.clear();
	// w[i] = 1 + (weight of everything lighter than w[i-1]): strictly more than the subtree it has to sit above, so no tie can rebalance the chain
		uint64_t total = n, below = R;   // below = R + w[0] + ... + w[i-2]
		for (unsigned i = 0; i < k; ++i) { uint64_t wi = below + 1 + (i == 1 ? 1 : 0); if (total + wi - 1 > 65535 - 8) break; w.push_back(wi); total += wi - 1; if (i >= 1) below += w[i - 1]; }
		if (w.size() == k) break;
	}
	uint64_t done = 0; unsigned maxLen = 0;
	auto upd = [&](unsigned sym) { tree.UpdateCodeCount(uint16_t(sym)); ref.update(int(sym)); if (++done % 2731 == 0) check_tree(tree, ref, ctx + " after update " + std::to_string(done)); };
	if (order == 0) { for (size_t i = 0; i < w.size(); ++i) for (uint64_t c = 1; c < w[i]; ++c) upd(unsigned(n - 1 - i)); }          // chain symbol by chain symbol
	else { bool more = true; for (uint64_t c = 1; more; ++c) { more = false; for (size_t i = 0; i < w.size(); ++i) if (c < w[i]) { upd(unsigned(n - 1 - i)); more = true; } } }   // interleaved, other symbols
	Snap s = check_tree(tree, ref, ctx + " final");
	for (auto& c : s.codes) maxLen = std::max(maxLen, c.second);
	st.cls("deep_run:max_code_bits:" + std::to_string(maxLen));
	// every symbol once more, checking after each (the encoder for untouched deep leaves)
	for (unsigned sym = 0; sym < n && !ref.at_capacity(); sym += std::max(1u, n / 16)) { upd(sym); check_tree(tree, ref, ctx + " tail symbol " + std::to_string(sym)); }
	st.nt(hmix(n, order) ^ 0xDE);
}
} // namespace

void run_sweep(Stats& st) {
	// all update sequences up to depth d on trees of 2..6 symbols
	const unsigned quickD[7] = {0, 0, 10, 8, 7, 6, 5}, thorD[7] = {0, 0, 14, 10, 9, 8, 7};
	for (unsigned n = 2; n <= 6; ++n) {
		if (!sw("dfs", n)) continue;
		AdaptiveHuffmanTree t{uint16_t(n)}; RefHuff r{int(n)};
		Snap root = check_tree(t, r, "[initial n=" + std::to_string(n) + "]");
		std::string path;
		dfs(t, r, 0, g_thorough ? thorD[n] : quickD[n], path, st, root.shape);
	}
	// initial trees of every size 2..314 (+ a few larger) are valid and equal to the reference; refusals leave them unchanged
	for (unsigned n = 2; n <= 330; ++n) {
		if (!sw("initial", n)) continue;
		AdaptiveHuffmanTree t{uint16_t(n)}; RefHuff r{int(n)};
		expect_refusal(t, r, "[initial n=" + std::to_string(n) + "]", st);
	}
	// to and across capacity
	for (unsigned n : {2u, 3u, 314u}) for (unsigned pattern = 0; pattern < 3; ++pattern) { if (!sw("capacity", n, pattern)) continue; capacity_run(n, pattern, st); }
	if (g_thorough) for (unsigned n : {4u, 5u, 17u, 100u, 313u}) { if (!sw("capacity", n, 2)) continue; capacity_run(n, 2, st); }
	{ const unsigned plan[][3] = {{2, 1, 1}, {3, 2, 7}, {314, 2, 40}, {314, 1, 3}}; for (auto& q : plan) { if (!sw("capacity_after_refusals", q[0], q[1], q[2])) continue; capacity_run(q[0], q[1], st, q[2]); } }
	for (unsigned n : {24u, 40u, 100u, 314u}) for (unsigned order = 0; order < 2; ++order) { if (!sw("deep", n, order)) continue; deep_run(n, order, st); }
	// compressor-style runs (code the symbol, then update it; nothing else is asked) of 20000 steps: round robin, skewed, and a text-like mixture
	for (unsigned n : {2u, 3u, 17u, 256u, 314u}) for (unsigned pat = 0; pat < 3; ++pat) {
		if (!sw("encoder_style", n, pat)) continue;
		AdaptiveHuffmanTree tree{uint16_t(n)}; RefHuff ref{int(n)}; int order = -1; uint64_t q = 0x9E3779B97F4A7C15ULL + n * 31 + pat; std::string ctx = "[encoder-style run n=" + std::to_string(n) + " pattern=" + std::to_string(pat) + "]";
		for (unsigned i = 0; i < 20000; ++i) { q ^= q << 13; q ^= q >> 7; q ^= q << 17; int sym = pat == 0 ? int(i % n) : pat == 1 ? int(std::min((q >> 20) % n, (q >> 40) % n)) : int(((q >> 16) % 7 == 0 ? (q >> 24) % n : (q >> 30) % std::min(n, 12u)));
			single_symbol_check(tree, sym, order, ctx + " step " + std::to_string(i)); tree.UpdateCodeCount(uint16_t(sym)); ref.update(sym); }
		check_tree(tree, ref, ctx + " at the end");
	}
	for (unsigned n : {2u, 3u, 5u, 314u}) for (unsigned lead : {127u, 128u, 255u, 256u, 32766u, 32767u, 32768u, 32769u, 33100u, 40000u, 65000u}) { if (lead + n + 40 > 65535) continue; if (!sw("hot_cold", n, lead)) continue; hot_cold_run(n, (n * 3 / 4) % n, lead, st); }
	st.exhaustive = true;
}

void write_seeds(const std::string&) {}
