// C20 — writers refuse quantities that do not fit their on-disk fields.
#include "vol_common.h"
#include "ref/ref_clm.h"
#include "Archive/VolFile.h"
#include "Archive/ClmFile.h"
#include "Sprite/ArtFile.h"
#include "Stream/DynamicMemoryWriter.h"
#include "Stream/MemoryReader.h"
#include <sys/wait.h>
#include <sys/resource.h>
#include <signal.h>
#include <fcntl.h>
#include <limits>

using namespace verif;
using namespace OP2Utility;
const char* const PROP_ID = "C20";

namespace {
void on_xfsz(int) { _exit(77); }

// Runs f in a forked child whose file writes are capped at `cap` bytes.  0 = f threw a std::exception,
// 1 = f returned normally, 77 = f tried to write more than the cap, anything else = crash.
int run_capped(const std::function<void()>& f, uint64_t cap) {
	fflush(nullptr);
	pid_t pid = fork();
	if (pid < 0) { perror("fork"); _exit(2); }
	if (pid == 0) {
		signal(SIGXFSZ, on_xfsz);
		struct rlimit rl{cap, cap}; setrlimit(RLIMIT_FSIZE, &rl);
		int rc = 1;
		try { f(); } catch (const std::exception&) { rc = 0; } catch (...) { rc = 3; }
		_exit(rc);
	}
	int status = 0; waitpid(pid, &status, 0);
	if (WIFEXITED(status)) return WEXITSTATUS(status);
	return 100 + WTERMSIG(status);
}

void make_sparse(const std::string& path, uint64_t size, const void* head = nullptr, size_t headLen = 0) {
	int fd = open(path.c_str(), O_WRONLY | O_CREAT | O_TRUNC, 0600);
	if (fd < 0) { perror("open sparse"); _exit(2); }
	if (headLen) (void)!write(fd, head, headLen);
	if (ftruncate(fd, off_t(size)) != 0) { perror("ftruncate"); _exit(2); }
	close(fd);
}

struct VolPlan { std::vector<std::pair<std::string, uint64_t>> files; };   // (name, size) in name order

bool vol_must_refuse(const VolPlan& p, std::string* why) {
	// block length field: 31 bits; block offsets: 32 bits
	uint64_t names = 0; for (auto& f : p.files) names += f.first.size() + 1;
	uint64_t off = 32 + ((names + 7) & ~uint64_t(3)) + ((14 * p.files.size() + 3) & ~uint64_t(3));
	for (auto& f : p.files) {
		if (f.second > 0x7FFFFFFFull) { *why = "member " + f.first + " of " + std::to_string(f.second) + " bytes exceeds the 31-bit block length field"; return true; }
		if (off > 0xFFFFFFFFull) { *why = "block offset of " + f.first + " = " + std::to_string(off) + " exceeds 32 bits"; return true; }
		off += 8 + ((f.second + 3) & ~uint64_t(3));
	}
	return false;
}

void vol_refusal_case(const VolPlan& p, bool preexisting, Stats& st, const char* label) {
	volgen::root(); volgen::mkdirs("%big/"); volgen::mkdirs("%o/");
	std::vector<std::string> paths;
	for (auto& f : p.files) { std::string path = "%big/" + f.first; make_sparse(path, f.second); paths.push_back(path); }
	std::string out = "%o/limit.vol"; remove(out.c_str());
	std::vector<uint8_t> old(19, 0x42); if (preexisting) write_file(out, old);
	std::string why; bool must = vol_must_refuse(p, &why);
	V_CHECK(must, "harness: plan is not beyond a limit");
	int rc = run_capped([&] { Archive::VolFile::CreateArchive(out, paths); }, 1 << 20);
	for (auto& q : paths) remove(q.c_str());
	V_CHECK(rc != 77, "CreateArchive started writing the volume although " << why);
	V_CHECK(rc != 1, "CreateArchive returned success although " << why);
	V_CHECK(rc == 0, "CreateArchive child ended abnormally (status " << rc << ") for: " << why);
	std::vector<uint8_t> now; bool ex = read_file(out, now);
	if (preexisting) V_CHECK(ex && now == old, "existing destination was altered by a refused creation (" << why << ")");
	else V_CHECK(!ex, "destination was created by a refused creation (" << why << ")");
	remove(out.c_str());
	st.cls(std::string("vol_refusal:") + label);
	uint64_t h = preexisting; for (auto& f : p.files) h = hmix(fnv1a(f.first.data(), f.first.size(), h), f.second); st.nt(h);
}

std::vector<uint8_t> wav_head(uint32_t dataLen) {
	refclm::WavSpec w; w.fmt = {1, 1, 22050, 44100, 2, 16}; w.fmt18 = true;
	auto b = refclm::build_wav(w);                 // 46-byte header with data length 0
	uint32_t riff = 38 + dataLen;
	for (int i = 0; i < 4; ++i) { b[4 + i] = uint8_t(riff >> (8 * i)); b[42 + i] = uint8_t(dataLen >> (8 * i)); }
	return b;
}

void clm_refusal_case(const std::vector<uint32_t>& dataLens, Stats& st, const char* label) {
	volgen::root(); volgen::mkdirs("%big/"); volgen::mkdirs("%o/");
	std::vector<std::string> paths; uint64_t off = 60 + 16 * dataLens.size(); bool must = false;
	for (size_t i = 0; i < dataLens.size(); ++i) {
		std::string p = "%big/w" + std::to_string(i) + ".wav"; auto h = wav_head(dataLens[i]);
		make_sparse(p, 46ull + dataLens[i], h.data(), h.size()); paths.push_back(p);
		if (off + dataLens[i] > 0xFFFFFFFFull) must = true;
		off += dataLens[i];
	}
	V_CHECK(must, "harness: CLM plan does not cross 2^32");
	std::string out = "%o/limit.clm"; remove(out.c_str());
	int rc = run_capped([&] { Archive::ClmFile::CreateArchive(out, paths); }, 1 << 20);
	for (auto& q : paths) remove(q.c_str());
	remove(out.c_str());
	V_CHECK(rc != 77, "CLM creation started copying audio data although a data offset exceeds 32 bits");
	V_CHECK(rc != 1, "CLM creation succeeded although a data offset exceeds 32 bits");
	V_CHECK(rc == 0, "CLM creation child ended abnormally (status " << rc << ")");
	st.cls(std::string("clm_refusal:") + label);
	uint64_t h = 77; for (auto d : dataLens) h = hmix(h, d); st.nt(h);
}

// the base name is the file name without its (last) extension, whatever characters it holds: dotted stems count in full
void clm_stem_case(const std::string& stem, Stats& st, const std::string& ext = ".wav") {
	volgen::root(); volgen::mkdirs("%big/"); volgen::mkdirs("%o/");
	std::string p = "%big/" + stem + ext; auto h = wav_head(4); h.insert(h.end(), {1, 2, 3, 4}); write_file(p, h);
	std::string out = "%o/stem.clm"; remove(out.c_str());
	Out o = guarded([&] { Archive::ClmFile::CreateArchive(out, {p}); });
	if (stem.size() <= 8) { V_CHECK(o == Out::Ok, "CLM creation refused the " << stem.size() << "-character name " << jstr(stem)); Archive::ClmFile c(out); V_CHECK(c.GetCount() == 1 && c.GetName(0) == stem, "name " << jstr(stem) << " stored as " << jstr(c.GetName(0))); }
	else V_CHECK(o == Out::Err, "CLM creation accepted the " << stem.size() << "-character name " << jstr(stem) << " (the index field holds 8)");
	remove(p.c_str()); remove(out.c_str());
	st.cls(stem.size() <= 8 ? "clm_stem:fits" : "clm_stem:refused"); st.nt(fnv1a(stem.data(), stem.size()) ^ 0xC2);
}

// several frames whose count/list differences cancel: every frame is judged on its own
void layer_multi_case(const std::vector<std::pair<unsigned, unsigned>>& frames, bool acrossAnimations, Stats& st) {
	ArtFile art; art.unknownAnimationCount = 0;
	bool allMatch = true;
	Animation an{}; an.unknown = 1; an.unknown2 = 2;
	for (auto& cl : frames) {
		Animation::Frame fr{}; fr.layerMetadata.count = cl.first & 0x7F; fr.layerMetadata.bReadOptionalData = 0; fr.unknownBitfield.count = 0; fr.unknownBitfield.bReadOptionalData = 0;
		fr.optional1 = fr.optional2 = fr.optional3 = fr.optional4 = 0;
		for (unsigned i = 0; i < cl.second; ++i) { Animation::Frame::Layer l{}; l.bitmapIndex = uint16_t(i); fr.layers.push_back(l); }
		if ((cl.first & 0x7F) != cl.second) allMatch = false;
		an.frames.push_back(fr);
		if (acrossAnimations) { art.animations.push_back(an); an.frames.clear(); }
	}
	if (!acrossAnimations) art.animations.push_back(an);
	Stream::DynamicMemoryWriter w;
	Out o = guarded([&] { art.Write(w); });
	if (allMatch) V_CHECK(o == Out::Ok, "consistent frames refused");
	else V_CHECK(o == Out::Err, "frames whose layer lists disagree with their 7-bit counts were written because the differences cancel (" << frames.size() << " frames, first " << frames[0].first << "/" << frames[0].second << ")");
	st.cls(allMatch ? "layers_multi:match" : "layers_multi:refused");
}

// the data offsets count audio data only: sources whose FILE sizes add up past 2^32 because of big chunks after the data still fit
void clm_big_files_fit_case(Stats& st) {
	volgen::root(); volgen::mkdirs("%big/"); volgen::mkdirs("%o/");
	std::vector<std::string> paths; std::vector<std::vector<uint8_t>> datas;
	for (unsigned i = 0; i < 2; ++i) {
		std::vector<uint8_t> data(100 + i * 7); for (size_t k = 0; k < data.size(); ++k) data[k] = uint8_t(k * 3 + i);
		uint32_t junkLen = 0xA0000000u;   // 2.5 GiB chunk after the data (sparse)
		auto h = wav_head(uint32_t(data.size())); h.insert(h.end(), data.begin(), data.end());
		if (h.size() & 1) h.push_back(0);
		const char tag[4] = {'J', 'U', 'N', 'K'}; h.insert(h.end(), tag, tag + 4); for (int j = 0; j < 4; ++j) h.push_back(uint8_t(junkLen >> (8 * j)));
		uint64_t total = h.size() + uint64_t(junkLen); uint32_t riff = uint32_t(total - 8); for (int j = 0; j < 4; ++j) h[4 + j] = uint8_t(riff >> (8 * j));
		std::string p = "%big/fit" + std::to_string(i) + ".wav"; make_sparse(p, total, h.data(), h.size()); paths.push_back(p); datas.push_back(data);
	}
	std::string out = "%o/fit.clm"; remove(out.c_str()); std::string what;
	Out o = guarded([&] { Archive::ClmFile::CreateArchive(out, paths); }, &what);
	for (auto& q : paths) remove(q.c_str());
	V_CHECK(o == Out::Ok, "CLM creation refused two small tracks whose source FILES are 2.5 GiB each (big chunk after the data): " << what);
	{ Archive::ClmFile c(out); V_CHECK(c.GetCount() == 2, "count");
	  for (size_t i = 0; i < 2; ++i) { auto sr = c.OpenStream(i); std::vector<uint8_t> g(size_t(sr->Length())); sr->Read(g.data(), g.size()); V_CHECK(g == datas[i], "track " << i << " of the archive built from multi-GiB source files holds other bytes (" << g.size() << ")"); } }
	remove(out.c_str());
	st.cls("clm_big_sources_fit"); st.nt(0xF17);
}

void clm_name_case(unsigned len, Stats& st) {
	volgen::root(); volgen::mkdirs("%big/"); volgen::mkdirs("%o/");
	std::string p = "%big/" + std::string(len, 'k') + ".wav"; auto h = wav_head(4); h.insert(h.end(), {1, 2, 3, 4}); write_file(p, h);
	std::string out = "%o/name.clm";
	Out o = guarded([&] { Archive::ClmFile::CreateArchive(out, {p}); });
	if (len <= 8) { V_CHECK(o == Out::Ok, "CLM creation refused an " << len << "-character name"); Archive::ClmFile c(out); V_CHECK(c.GetCount() == 1 && c.GetName(0) == std::string(len, 'k'), "name of " << len << " characters not stored intact"); }
	else V_CHECK(o == Out::Err, "CLM creation accepted a " << len << "-character name (the index field holds 8)");
	remove(p.c_str()); remove(out.c_str());
	st.cls("clm_name_len:" + std::to_string(len)); st.nt(hmix(0xC1, len));
}

template <class S> void prefix_case(size_t count, Stats& st) {
	std::vector<uint8_t> v(count, 0x3C);
	Stream::DynamicMemoryWriter w;
	Out o = guarded([&] { w.template Write<S>(v); });
	bool fits = count <= uint64_t(std::numeric_limits<S>::max());
	if (fits) { V_CHECK(o == Out::Ok, "container of " << count << " refused with a prefix that can hold it"); auto r = w.GetReader(); S s; r.Read(s); V_CHECK(uint64_t(s) == count, "prefix " << uint64_t(s) << " != " << count); }
	else V_CHECK(o == Out::Err, "container of " << count << " elements written with a " << sizeof(S) * 8 << "-bit prefix (wrapped size field)");
	st.cls(fits ? "prefix:fits" : "prefix:refused"); st.nt(hmix(count, sizeof(S) * 2 + std::numeric_limits<S>::is_signed));
}

void layer_case(unsigned count7, unsigned listLen, Stats& st) {
	ArtFile art; art.unknownAnimationCount = 0;
	Animation an{}; an.unknown = 1; an.unknown2 = 2;
	Animation::Frame fr{}; fr.layerMetadata.count = count7 & 0x7F; fr.layerMetadata.bReadOptionalData = 0; fr.unknownBitfield.count = 0; fr.unknownBitfield.bReadOptionalData = 0;
	fr.optional1 = fr.optional2 = fr.optional3 = fr.optional4 = 0;
	for (unsigned i = 0; i < listLen; ++i) { Animation::Frame::Layer l{}; l.bitmapIndex = uint16_t(i); l.frameIndex = uint8_t(i); fr.layers.push_back(l); }
	an.frames.push_back(fr); art.animations.push_back(an);
	Stream::DynamicMemoryWriter w;
	Out o = guarded([&] { art.Write(w); });
	if (listLen == (count7 & 0x7F)) {
		V_CHECK(o == Out::Ok, "frame with " << listLen << " layers and count " << count7 << " refused");
		auto r = w.GetReader(); ArtFile back = ArtFile::Read(r);
		V_CHECK(back.animations.size() == 1 && back.animations[0].frames.size() == 1 && back.animations[0].frames[0].layers.size() == listLen, "written frame re-reads with " << back.animations[0].frames[0].layers.size() << " layers");
	} else V_CHECK(o == Out::Err, "frame whose layer list has " << listLen << " entries was written with 7-bit count " << (count7 & 0x7F));
	st.cls(listLen == (count7 & 0x7F) ? "layers:match" : "layers:refused");
}
} // namespace

void run_case(Tape& t, Stats& st) {
	switch (t.below(5)) {
	case 0: { unsigned c = unsigned(t.below(128)), l = unsigned(t.below(131)); if (t.below(4) == 0) l = c + 128 * (1 + unsigned(t.below(8))); else if (t.below(8) == 0) l = unsigned(t.below(70000)); layer_case(c, l, st); st.nt(hmix(c, l) ^ 0x1A); if (st.want_sample()) st.sample("{\"layers\":{\"count7\":" + std::to_string(c) + ",\"list\":" + std::to_string(l) + "}}"); break; }
	case 1: { size_t n = t.pick<uint32_t>({254, 255, 256, 257, 127, 128, 65534, 65535, 65536, 65537, 32767, 32768}); if (t.below(4) == 0) n = t.below(70000);
		switch (t.below(4)) { case 0: prefix_case<uint8_t>(n, st); break; case 1: prefix_case<int8_t>(n, st); break; case 2: prefix_case<uint16_t>(n, st); break; default: prefix_case<int16_t>(n, st); break; }
		if (st.want_sample()) st.sample("{\"prefixed_container\":" + std::to_string(n) + "}"); break; }
	case 2: { // VOL plans beyond a limit: one oversized member among small ones, or offsets crossing 2^32
		VolPlan p; unsigned n = 1 + unsigned(t.below(4));
		if (t.flag()) { for (unsigned i = 0; i < n; ++i) p.files.push_back({std::string(1, char('a' + i)) + ".dat", t.below(5000)}); size_t k = t.below(n); p.files[k].second = t.pick<uint64_t>({0x80000000ull, 0x80000001ull, 0xFFFFFFFFull, 0x100000000ull, 0x100000001ull, 0xC0000000ull, 0x17FFFFFFFull}) + (t.below(4) == 0 ? t.below(4096) : 0); }
		else { uint64_t each = t.pick<uint64_t>({0x60000000ull, 0x7FFFFFFFull, 0x55555556ull, 0x40000000ull}); unsigned k = unsigned(0x100000000ull / each) + 1; for (unsigned i = 0; i < k; ++i) p.files.push_back({std::string(1, char('a' + i)) + ".big", each}); p.files.push_back({"zz.end", t.below(100)}); }
		vol_refusal_case(p, t.flag(), st, "generated");
		if (st.want_sample()) { std::string s = "{\"vol_members\":["; for (size_t i = 0; i < p.files.size(); ++i) s += (i ? "," : "") + std::to_string(p.files[i].second); st.sample(s + "]}"); }
		break; }
	case 3: { std::vector<uint32_t> d; uint32_t each = t.pick<uint32_t>({0x60000000u, 0x7FFFFFF0u, 0x55555556u, 0xFFFFFF00u, 0x80000000u}); unsigned k = unsigned(0x100000000ull / each) + 1; for (unsigned i = 0; i < k && i < 8; ++i) d.push_back(each); if (t.flag()) d.insert(d.begin(), uint32_t(t.below(1000)));
		clm_refusal_case(d, st, "generated"); break; }
	default: {
		unsigned k = unsigned(t.below(3));
		if (k == 0) clm_name_case(6 + unsigned(t.below(7)), st);
		else if (k == 1) { std::string stem; unsigned n = 1 + unsigned(t.below(13)); for (unsigned i = 0; i < n; ++i) stem.push_back(t.below(4) == 0 ? '.' : char('a' + t.below(26))); if (stem == "." || stem == "..") stem += "x";
			if (t.below(4) == 0) { std::string mb = t.pick<std::string>({"\xC3\xA9", "\xE2\x82\xAC", "\xF0\x9F\x8E\xB5", "\xCC\x81", "\xFF", "\x80"}); stem.insert(t.below(stem.size() + 1), mb); if (t.flag()) stem.insert(t.below(stem.size() + 1), mb); }   /* bytes of multi-byte characters: the field counts bytes */ std::string ext = ".wav"; if (t.below(3) == 0 && stem.find('.') == std::string::npos) { ext = "."; unsigned en = 1 + unsigned(t.below(6)); for (unsigned i = 0; i < en; ++i) ext.push_back(char('a' + t.below(26))); } clm_stem_case(stem, st, ext); }
		else { unsigned c = unsigned(t.below(128)), d = 1 + unsigned(t.below(127)); if (c + d > 127) d = 127 - c; if (d == 0) { c = 3; d = 4; } layer_multi_case({{c, c + d}, {c + d, c}}, t.flag(), st); st.nt(hmix(c, d) ^ 0x2F); }
		break; }
	}
}

void run_sweep(Stats& st) {
	// exhaustive: every layer-list length 0..130 against every 7-bit count 0..127
	for (unsigned c = 0; c < 128; ++c) { if (!sw("layers_row", c)) continue; for (unsigned l = 0; l <= 130; ++l) layer_case(c, l, st); st.evaluations += 130; st.nt(hmix(c, 0x7777)); }
	// list lengths that agree with the count modulo 128, 256, 65536 (a narrowed comparison would let them through)
	for (unsigned c = 0; c < 128; ++c) { if (!sw("layers_modular", c)) continue; for (unsigned l : {c + 128, c + 256, c + 384, c + 512, c + 1024, c + 65536}) layer_case(c, l, st); st.evaluations += 5; }
	// containers at and beyond 8/16-bit prefixes
	for (size_t n : {size_t(127), size_t(128), size_t(255), size_t(256), size_t(32767), size_t(32768), size_t(65535), size_t(65536)}) {
		if (!sw("prefix", n)) continue;
		prefix_case<uint8_t>(n, st); prefix_case<int8_t>(n, st); prefix_case<uint16_t>(n, st); prefix_case<int16_t>(n, st); prefix_case<uint32_t>(n, st);
	}
	for (unsigned len = 7; len <= 10; ++len) if (sw("clm_name", len)) clm_name_case(len, st);
	{ const char* stems[] = {"abcd.efg", "abcdefgh.x", "abc.defghi", "a.b.c.d.e", "a.b", "snd1.take2", "abcdefg.h", ".hidden", ".longername", "a..b", "12345678.9", "x.wav"};
	  for (unsigned i = 0; i < sizeof stems / sizeof stems[0]; ++i) if (sw("clm_stem", i)) clm_stem_case(stems[i], st); }
	// the field holds 8 BYTES: names whose text is short when counted in characters of some multi-byte encoding but longer than 8 bytes do not fit
	{ const char* stems[] = {"c20icaf\xC3\xA9", "\xC3\xA9\xC3\xA9\xC3\xA9\xC3\xA9\xC3\xA9\xC3\xA9\xC3\xA9\xC3\xA9", "ab\xE2\x82\xAC" "cdefg", "\xF0\x9F\x8E\xB5" "sound", "abcdefg\xC3\xA9", "na\xC3\xAFve", "\xC3\xA9\xC3\xA9\xC3\xA9\xC3\xA9", "abcdefgh\xCC\x81", "\xFF\xFE" "abcdefg", "abcdefg\x80\x80"};
	  for (unsigned i = 0; i < sizeof stems / sizeof stems[0]; ++i) if (sw("clm_stem_multibyte", i)) clm_stem_case(stems[i], st); }
	// the limit is on the name without its extension, whatever the extension is (a length test on the whole file name would be wrong both ways)
	{ const char* cases[][2] = {{"eightchr", ".wave"}, {"eightchr", ".w"}, {"eightchr", ".audio"}, {"ninechars", ".wv"}, {"ninechars", ".w"}, {"tenletters", ".x"}, {"sevench", ".wavefile"}, {"a", ".longextension"}, {"ninechars", ".wavx"}};
	  for (unsigned i = 0; i < sizeof cases / sizeof cases[0]; ++i) if (sw("clm_stem_ext", i)) clm_stem_case(cases[i][0], st, cases[i][1]); }
	// compensating frames: +d and -d in one file, same animation and different animations
	for (unsigned c = 0; c < 128; c += 9) for (unsigned d : {1u, 2u, 5u, 64u, 127u}) for (unsigned across = 0; across < 2; ++across) {
		if (c + d > 127) continue;
		if (!sw("layers_cancel", c, d, across)) continue;
		layer_multi_case({{c, c + d}, {c + d, c}}, across, st);
		layer_multi_case({{c, c}, {c, c + d}, {c + d, c + d}, {c + d, c}}, across, st);
		layer_multi_case({{c, c}, {c + d, c + d}}, across, st);
	}
	// VOL: member sizes at and beyond the block length field / 32-bit sizes; destination absent and pre-existing
	for (int pre = 0; pre < 2; ++pre) {
		for (uint64_t sz : {0x80000000ull, 0x80000001ull, 0xFFFFFFFFull, 0x100000000ull, 0x100000005ull}) { if (!sw("vol_member", sz, pre)) continue; vol_refusal_case({{{"a.txt", 10}, {"big.bin", sz}, {"c.txt", 3}}}, pre, st, "member_size"); }
		if (sw("vol_offsets", 0, pre)) vol_refusal_case({{{"a1.big", 0x60000000ull}, {"a2.big", 0x60000000ull}, {"a3.big", 0x60000000ull}, {"zz.txt", 10}}}, pre, st, "offset_crossing");
		if (sw("vol_offsets", 1, pre)) vol_refusal_case({{{"a1.big", 0x7FFFFFFFull}, {"a2.big", 0x7FFFFFFFull}, {"a3.big", 0x7FFFFFFFull}}}, pre, st, "offset_crossing");
		if (sw("vol_offsets", 2, pre)) vol_refusal_case({{{"a1.big", 0x7FFFFFFFull}, {"a2.big", 0x7FFFFFF0ull}, {"a3.big", 16}, {"a4.big", 0}}}, pre, st, "offset_crossing");
	}
	// VOL: the third block offset lands exactly on / just past 2^32 (unaligned end of the second block = 2^32 + delta)
	for (int delta = -3; delta <= 9; ++delta) {
		if (!sw("vol_offset_edge", uint64_t(delta + 16))) continue;
		VolPlan p; p.files = {{"a1.big", 0x7FFFFFFCull}, {"a2.big", 0}, {"a3.end", 5}};
		uint64_t names = 0; for (auto& f : p.files) names += f.first.size() + 1;
		uint64_t off2 = 32 + ((names + 7) & ~uint64_t(3)) + ((14 * 3 + 3) & ~uint64_t(3)) + 8 + 0x7FFFFFFCull;
		p.files[1].second = uint64_t(int64_t(0x100000000ull) + delta) - off2 - 8;
		vol_refusal_case(p, delta & 1, st, "offset_exactly_at_2^32");
	}
	// VOL: EMPTY members whose own blocks still start below 2^32 (at 2^32-8k .. 2^32-4) followed by one more member whose block cannot: every
	// offset is judged on its own accumulated value, also behind members that add only their 8-byte header
	for (unsigned empties = 1; empties <= 3; ++empties) for (int delta : {-24, -16, -8, -4}) {
		if (int64_t(delta) + 8 * int64_t(empties) < 0) continue;    // the member behind the empties must land at or past 2^32
		if (!sw("vol_empty_at_edge", empties, uint64_t(delta + 32))) continue;
		VolPlan p; p.files = {{"a1.big", 0x7FFFFFFCull}, {"a2.big", 0}};
		for (unsigned k = 0; k < empties; ++k) p.files.push_back({"a3" + std::string(1, char('a' + k)) + ".nil", 0});
		p.files.push_back({"a9.end", 5});
		uint64_t names = 0; for (auto& f : p.files) names += f.first.size() + 1;
		uint64_t off2 = 32 + ((names + 7) & ~uint64_t(3)) + ((14 * p.files.size() + 3) & ~uint64_t(3)) + 8 + 0x7FFFFFFCull;
		p.files[1].second = uint64_t(int64_t(0x100000000ull) + delta) - off2 - 8;    // first empty member's block starts at 2^32 + delta
		vol_refusal_case(p, (empties + unsigned(-delta)) & 1, st, "empty_members_at_the_edge");
	}
	// VOL: hundreds of members with long names - tables, block headers and padding alone exceed 64 KiB - and a data total a little below
	// 2^32 - 64 KiB: the member DATA would fit 32 bits, the block offsets do not (no allowance for "small" overhead is sound)
	for (unsigned variant = 0; variant < 3; ++variant) {
		if (!sw("vol_overhead_beyond_64k", variant)) continue;
		unsigned M = variant == 0 ? 600 : variant == 1 ? 1000 : 700; size_t nameLen = variant == 0 ? 100 : variant == 1 ? 60 : 90;
		VolPlan p; p.files = {{"a1.big", 0x7FFFFFFFull}, {"a2.big", 0}};
		for (unsigned k = 0; k < M; ++k) { char b[16]; snprintf(b, sizeof b, "m%05u_", k); std::string nm = b; nm += std::string(nameLen - nm.size(), char('a' + k % 26)); p.files.push_back({nm, 1 + k % 3}); }
		uint64_t small = 0; for (size_t i = 2; i < p.files.size(); ++i) small += p.files[i].second;
		uint64_t target = 0xFFFFFFFFull - 0x10000ull - (variant == 2 ? 4096 : 8);   // total member data
		p.files[1].second = target - 0x7FFFFFFFull - small;
		V_CHECK(p.files[1].second <= 0x7FFFFFFFull, "harness: second big member fits its field");
		vol_refusal_case(p, variant & 1, st, "overhead_of_many_members_pushes_offsets_past_2^32");
	}
	if (sw("clm_big_sources_fit")) clm_big_files_fit_case(st);
	// CLM: data offsets crossing 2^32
	if (sw("clm_cross", 0)) clm_refusal_case({0x60000000u, 0x60000000u, 0x60000000u}, st, "offset_crossing");
	if (sw("clm_cross", 1)) clm_refusal_case({0xFFFFFF00u, 0x100u}, st, "offset_crossing");
	if (sw("clm_cross", 2)) clm_refusal_case({100u, 0x7FFFFFFFu, 0x7FFFFFFFu, 0x10u}, st, "offset_crossing");
	// thorough: the largest representable member really is written and read back (2 GiB - 1 of real output)
	if (g_thorough && sw("vol_max_member")) {
		volgen::root(); volgen::mkdirs("%big/"); volgen::mkdirs("%o/");
		make_sparse("%big/max.bin", 0x7FFFFFFFull, "HEAD", 4);
		std::string out = "%o/max.vol"; remove(out.c_str());
		std::string what; Out o = guarded([&] { Archive::VolFile::CreateArchive(out, {"%big/max.bin", "%big/max.bin"}); });
		V_CHECK(o == Out::Err, "duplicate input accepted");
		o = guarded([&] { Archive::VolFile::CreateArchive(out, {"%big/max.bin"}); }, &what);
		V_CHECK(o == Out::Ok, "a member of 2^31-1 bytes (largest representable) was refused: " << what);
		{ Archive::VolFile v(out); V_CHECK(v.GetCount() == 1 && v.GetSize(0) == 0x7FFFFFFFu, "largest member re-reads with size " << v.GetSize(0)); auto s = v.OpenStream(0); V_CHECK(s->Length() == 0x7FFFFFFFull, "stream length of the largest member"); char b[4]; s->Read(b, 4); V_CHECK(memcmp(b, "HEAD", 4) == 0, "largest member content"); }
		remove(out.c_str()); remove("%big/max.bin");
		st.cls("vol_max_member_written"); st.nt(0x7FFFFFFF);
	}
	st.exhaustive = true;
}

void write_seeds(const std::string&) {}
