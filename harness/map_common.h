// Shared by C06/C07/C16/C18: generator of logical maps and deep comparison of a library Map with the model.
#pragma once
#include "common/verif.h"
#include "ref/ref_map.h"
#include "Map/Map.h"
#include "Map/MapHeader.h"
#include "Map/CellType.h"
#include <cstring>

namespace mapgen {
using namespace verif;
using refmap::LMap;

inline std::string gen_str(Tape& t, size_t maxlen) { size_t n = t.below(maxlen + 1); std::string s; for (size_t i = 0; i < n; ++i) s.push_back(t.below(5) == 0 ? char(t.u8()) : char('a' + t.below(26))); return s; }

inline LMap gen_lmap(Tape& t, size_t maxTiles, unsigned minLg = 0) {
	LMap m;
	m.versionTag = t.pick<uint32_t>({0x1010, 0x1011, 0x1011, 0x1012, 0x2000, 0xFFFFFFFF, 0x7FFFFFFF, 0x80000000});
	if (t.below(5) == 0) m.versionTag = 0x1010 + t.u16();
	m.savedFlag = t.pick<int32_t>({0, 0, 1, 2, -1, 256, int32_t(0x80000000)}); if (t.below(6) == 0) m.savedFlag = int32_t(t.u32());
	m.lgWidth = minLg + uint32_t(t.below(11 - minLg)); if (maxTiles >= 8192 && t.below(12) == 0) m.lgWidth = 11 + uint32_t(t.below(2));   // wider than any game map
	uint64_t w = uint64_t(1) << m.lgWidth;
	uint64_t maxH = maxTiles / w; if (maxH > 300) maxH = 300;
	m.height = uint32_t(t.below(maxH + 1));
	if (t.below(4) == 0) m.height = uint32_t(std::min<uint64_t>(maxH, t.pick<uint32_t>({0, 1, 2, 31, 32, 33, 64, 255, 256})));
	size_t n = size_t(w * m.height);
	m.tiles.resize(n);
	uint64_t s = t.u64() | 1;
	unsigned mode = unsigned(t.below(3));
	for (size_t i = 0; i < n; ++i) { s ^= s << 13; s ^= s >> 7; s ^= s << 17; m.tiles[i] = mode == 0 ? uint32_t(s >> 16) : mode == 1 ? uint32_t(i * 2654435761u) : uint32_t(s >> 40) & 0x0000FFFF; }
	for (int i = 0; i < 4; ++i) m.clip[i] = t.pick<int32_t>({0, -1, 31, 32, 0x7FFFFFFF, int32_t(0x80000000), 100});
	if (t.flag()) for (int i = 0; i < 4; ++i) m.clip[i] = int32_t(t.u32());
	unsigned ns = unsigned(t.below(9));
	for (unsigned i = 0; i < ns; ++i) { refmap::Source src; if (t.below(3) != 0) { src.name = gen_str(t, 8); } if (t.below(4) == 0) src.name = "well0001";
		if (t.below(10) == 0) src.name = t.pick<std::string>({std::string(1, '\0'), std::string(8, '\0'), std::string(3, '\0'), std::string("ab\0cdefg", 8), std::string("well\0\0\0\0", 8), std::string("\0x", 2), "\xFF\xFF", "a b", "x.bmp", " "});   /* names made of, or holding, NUL bytes and other odd content */
		src.numTiles = src.name.empty() ? 0 : t.pick<uint32_t>({0, 1, 432, 0xFFFFFFFF, 7}); m.sources.push_back(src); }
	unsigned nm = unsigned(t.below(41)); if (t.below(8) == 0) nm = t.pick<unsigned>({2048, 2048, 4097, 5000});   // 2048 = every mapping index; beyond 4096 = past any chunked-read threshold
	{ uint64_t q = t.u64() | 1; bool wide = t.flag();   // all four 16-bit fields take arbitrary values in half the maps
	  for (unsigned i = 0; i < nm; ++i) { q ^= q << 13; q ^= q >> 7; q ^= q << 17; if (wide) m.mappings.push_back({uint16_t(q), uint16_t(q >> 16), uint16_t(q >> 32), uint16_t(q >> 48)}); else m.mappings.push_back({uint16_t(i * 7 + (q & 255)), uint16_t(i * 13 + 1), uint16_t(i % 5), uint16_t(i % 3)}); } }
	unsigned nt = unsigned(t.below(5));
	for (unsigned i = 0; i < nt; ++i) { std::array<uint8_t, 264> a; uint8_t b = t.u8(); for (size_t k = 0; k < 264; ++k) a[k] = uint8_t(k * 5 + b + i); m.terrains.push_back(a); }
	unsigned ng = unsigned(t.below(7)); if (t.below(20) == 0) ng = 300;
	unsigned longNames = 0;   // at most two very long names per map: one map stays below ~150 KB
	for (unsigned i = 0; i < ng; ++i) { refmap::Group g; g.w = uint32_t(t.below(6)); g.h = uint32_t(t.below(6)); if (t.below(5) == 0) g.w = 0; else if (t.below(12) == 0) { g.w = uint32_t(t.pick<uint32_t>({1, 16, 40, 255, 256, 257})); g.h = uint32_t(1 + t.below(3)); } if (g.w == 5 && g.h == 5) { static const uint32_t wrapDims[4][2] = {{65536, 65536}, {0x80000001u, 2}, {0x10000, 0x10001}, {0x40000000u, 4}}; g.w = wrapDims[i % 4][0]; g.h = wrapDims[i % 4][1]; }   /* dimensions whose product passes 2^32: the index list has the product modulo 2^32 entries, as the reader sizes it */
		g.indices.resize(size_t(uint32_t(g.w * g.h))); for (auto& x : g.indices) x = t.u16(); g.name = gen_str(t, 20); if (t.below(16) == 0 && longNames < 2) { ++longNames; g.name = std::string(t.pick<size_t>({255, 256, 300, 70000}), char('a' + t.below(26))); } m.groups.push_back(g); }
	m.unknownWord = t.below(3) == 0 ? t.u32() : (ng ? ng - 1 : 0);
	if (t.below(4) == 0) m.trailing = t.bytes(t.below(20));
	return m;
}

inline uint32_t tile_word(const OP2Utility::Tile& t) { uint32_t w; std::memcpy(&w, &t, 4); return w; }

// every public field / getter of the library map against the logical map
inline void compare(const OP2Utility::Map& map, const LMap& m, const std::string& ctx) {
	V_CHECK(map.GetVersionTag() == m.versionTag, ctx << ": version tag " << map.GetVersionTag() << " != " << m.versionTag);
	V_CHECK(map.IsSavedGame() == (m.savedFlag != 0), ctx << ": saved-game flag");
	V_CHECK(map.WidthInTiles() == (uint64_t(1) << m.lgWidth), ctx << ": width " << map.WidthInTiles() << " != 2^" << m.lgWidth);
	V_CHECK(map.HeightInTiles() == m.height, ctx << ": height " << map.HeightInTiles() << " != " << m.height);
	V_CHECK(map.TileCount() == m.tiles.size() && map.tiles.size() == m.tiles.size(), ctx << ": tile count " << map.tiles.size() << " != " << m.tiles.size());
	for (size_t i = 0; i < m.tiles.size(); ++i) if (tile_word(map.tiles[i]) != m.tiles[i]) V_CHECK(false, ctx << ": tile " << i << " = " << tile_word(map.tiles[i]) << " != " << m.tiles[i]);
	V_CHECK(map.clipRect.x1 == m.clip[0] && map.clipRect.y1 == m.clip[1] && map.clipRect.x2 == m.clip[2] && map.clipRect.y2 == m.clip[3], ctx << ": clip rectangle differs");
	V_CHECK(map.tilesetSources.size() == m.sources.size(), ctx << ": " << map.tilesetSources.size() << " tileset sources != " << m.sources.size());
	for (size_t i = 0; i < m.sources.size(); ++i) { V_CHECK(map.tilesetSources[i].tilesetFilename == m.sources[i].name, ctx << ": tileset source " << i << " name"); V_CHECK(map.tilesetSources[i].numTiles == m.sources[i].numTiles, ctx << ": tileset source " << i << " tile count " << map.tilesetSources[i].numTiles << " != " << m.sources[i].numTiles); }
	V_CHECK(map.tileMappings.size() == m.mappings.size(), ctx << ": mapping count");
	for (size_t i = 0; i < m.mappings.size(); ++i) V_CHECK(map.tileMappings[i].tilesetIndex == m.mappings[i][0] && map.tileMappings[i].tileGraphicIndex == m.mappings[i][1] && map.tileMappings[i].animationCount == m.mappings[i][2] && map.tileMappings[i].animationDelay == m.mappings[i][3], ctx << ": mapping " << i << " differs");
	V_CHECK(map.terrainTypes.size() == m.terrains.size(), ctx << ": terrain type count");
	for (size_t i = 0; i < m.terrains.size(); ++i) V_CHECK(std::memcmp(&map.terrainTypes[i], m.terrains[i].data(), 264) == 0, ctx << ": terrain type " << i << " differs");
	V_CHECK(map.tileGroups.size() == m.groups.size(), ctx << ": tile group count " << map.tileGroups.size() << " != " << m.groups.size());
	for (size_t i = 0; i < m.groups.size(); ++i) { auto& g = map.tileGroups[i]; V_CHECK(g.tileWidth == m.groups[i].w && g.tileHeight == m.groups[i].h && g.mappingIndices == m.groups[i].indices && g.name == m.groups[i].name, ctx << ": tile group " << i << " differs"); }
}

inline std::string render(const LMap& m) {
	return "{\"lg_width\":" + std::to_string(m.lgWidth) + ",\"height\":" + std::to_string(m.height) + ",\"tag\":" + std::to_string(m.versionTag) + ",\"saved_flag\":" + std::to_string(m.savedFlag) +
		",\"sources\":" + std::to_string(m.sources.size()) + ",\"mappings\":" + std::to_string(m.mappings.size()) + ",\"terrains\":" + std::to_string(m.terrains.size()) + ",\"groups\":" + std::to_string(m.groups.size()) + ",\"trailing\":" + std::to_string(m.trailing.size()) + "}";
}
} // namespace mapgen
