// C08 — indexed bitmaps read back valid and round-trip pixels, palette, geometry.
#include "common/verif.h"
#include "ref/ref_gfx.h"
#include "Bitmap/BitmapFile.h"
#include "Stream/MemoryReader.h"
#include "Stream/DynamicMemoryWriter.h"
#include <cstdlib>

using namespace verif;
using namespace OP2Utility;
using refgfx::LBmp;
const char* const PROP_ID = "C08";

namespace {
std::vector<uint8_t> write_bmp(const BitmapFile& b) { Stream::DynamicMemoryWriter w; if ((b.pixels.size() + b.palette.size()) & 1) b.WriteIndexed(std::move(w)); /* the overload taking an rvalue writer */ else b.WriteIndexed(w); std::vector<uint8_t> out(w.Length()); auto r = w.GetReader(); r.Read(out.data(), out.size()); return out; }
BitmapFile read_bmp(const std::vector<uint8_t>& v) {
	uint8_t* heap = static_cast<uint8_t*>(malloc(v.size() ? v.size() : 1)); struct F { uint8_t* p; ~F() { free(p); } } g{heap};
	if (!v.empty()) memcpy(heap, v.data(), v.size());
	if (fnv1a(v.data(), v.size()) & 1) return BitmapFile::ReadIndexed(Stream::MemoryReader(heap, v.size()));   // the overload taking a temporary stream
	Stream::MemoryReader r(heap, v.size()); return BitmapFile::ReadIndexed(r);
}
uint64_t absh(int32_t h) { return h < 0 ? uint64_t(-int64_t(h)) : uint64_t(h); }

LBmp gen_lbmp(Tape& t) {
	LBmp b; b.depth = t.pick<unsigned>({1, 4, 8});
	b.width = int32_t(t.below(71)); if (t.below(12) == 0) b.width = t.pick<int32_t>({100, 255, 256, 257, 1000, 4097});
	b.height = int32_t(t.below(81)) - 40; if (t.below(10) == 0) b.height = t.pick<int32_t>({0, 1, -1, 2, -2, 300, -300});
	if (t.below(24) == 0) { b.width = t.pick<int32_t>({65535, 65536, 65537, 65569, 131073}) + int32_t(t.below(3)) * 8; b.height = t.pick<int32_t>({1, -1, 2, -3}); }   // rows wider than any 16-bit quantity
	unsigned maxc = 1u << b.depth;
	b.usedColors = t.below(3) == 0 ? 1 + uint32_t(t.below(maxc)) : 0;
	size_t entries = b.usedColors ? b.usedColors : maxc;
	for (size_t i = 0; i < entries; ++i) b.palette.push_back({t.u8(), uint8_t(i * 7 + 1), uint8_t(255 - i), t.u8()});
	b.pixels = t.expand(size_t(refgfx::pitch(uint64_t(b.width), b.depth) * absh(b.height)));
	b.imageSize = t.below(3) == 0 ? t.u32() : 0; if (t.below(3) == 0) b.imageSize = uint32_t(b.pixels.size());   // the size most encoders state: exactly the pixel bytes
	b.xRes = t.below(3) == 0 ? t.u32() : 2835; b.yRes = t.below(3) == 0 ? t.u32() : 0;
	b.importantColors = t.below(3) == 0 ? uint32_t(t.below(maxc + 1)) : 0;
	b.shift = t.below(5) == 0 ? uint32_t(t.below(100)) : 0;
	b.reserved1 = t.below(8) == 0 ? t.u16() : 0;
	if (t.below(10) == 0) b.compression = t.pick<uint32_t>({1, 2, 3, 0x80000000u, 0xFFFFFFFFu});   // the reader does not look at this field: whatever it accepts must obey the laws
	return b;
}

void check_written(const std::vector<uint8_t>& w, int32_t width, int32_t height, unsigned depth, const char* ctx) {
	LBmp p; std::string err = refgfx::parse_written_bmp(w, p);
	V_CHECK(err.empty(), ctx << ": written bitmap is not self-describing: " << err);
	V_CHECK(p.width == width && p.height == height && p.depth == depth, ctx << ": written headers say " << p.width << "x" << p.height << "@" << p.depth << ", object is " << width << "x" << height << "@" << depth);
	uint64_t pt = refgfx::pitch(uint64_t(width), depth), rb = refgfx::row_bytes(uint64_t(width), depth);
	for (uint64_t y = 0; y < absh(height); ++y) for (uint64_t k = rb; k < pt; ++k) V_CHECK(p.pixels[size_t(y * pt + k)] == 0, ctx << ": row " << y << " padding byte " << k << " written as " << int(p.pixels[size_t(y * pt + k)]) << ", not zero");
}

void accepted_laws(BitmapFile& b, const char* ctx, Stats& st) {
	// passes the library's own validation; geometry consistent
	std::string what; Out o = guarded([&] { b.Validate(); }, &what);
	V_CHECK(o == Out::Ok, ctx << ": accepted bitmap fails Validate(): " << what);
	V_CHECK(b.imageHeader.width >= 0, ctx << ": accepted bitmap has negative width " << b.imageHeader.width);
	unsigned depth = b.imageHeader.bitCount;
	V_CHECK(depth == 1 || depth == 4 || depth == 8, ctx << ": depth " << depth);
	uint64_t pt = refgfx::pitch(uint64_t(b.imageHeader.width), depth), H = absh(b.imageHeader.height), rb = refgfx::row_bytes(uint64_t(b.imageHeader.width), depth);
	V_CHECK(b.pixels.size() == pt * H, ctx << ": " << b.pixels.size() << " pixel bytes for " << H << " rows of pitch " << pt);
	V_CHECK(b.palette.size() <= (size_t(1) << depth), ctx << ": palette of " << b.palette.size() << " entries at depth " << depth);
	// write -> read preserves geometry, palette entries at their index, meaningful pixel bytes; padding zero
	BitmapFile before = b;
	std::vector<uint8_t> w = write_bmp(b);
	V_CHECK(b == before && b.palette.size() == before.palette.size(), ctx << ": WriteIndexed altered the bitmap it was given");
	check_written(w, b.imageHeader.width, b.imageHeader.height, depth, ctx);
	if ((w.size() & 7) == 0 && b.imageHeader.compression == BmpCompression::Uncompressed) {   // the file-name overload writes the same bytes, also over an older, longer file
		std::string fp = scratch_path("c08_out.bmp"); write_file(fp, std::vector<uint8_t>(w.size() + 5000, 0x3D));
		b.WriteIndexed(fp); std::vector<uint8_t> wf; read_file(fp, wf);
		V_CHECK(wf == w, ctx << ": WriteIndexed(filename) over an existing longer file gives " << wf.size() << " bytes, the stream overload " << w.size());
		st.cls("written_via_file_over_longer_file");
	}
	BitmapFile b2; o = guarded([&] { b2 = read_bmp(w); }, &what);
	V_CHECK(o == Out::Ok, ctx << ": bitmap written by the library cannot be read back: " << what << " (palette entries " << b.palette.size() << " of " << (1u << depth) << ")");
	V_CHECK(b2.imageHeader.width == b.imageHeader.width && b2.imageHeader.height == b.imageHeader.height && b2.imageHeader.bitCount == depth, ctx << ": geometry changed by write+read");
	V_CHECK(b2.palette.size() >= b.palette.size(), ctx << ": palette shrank from " << b.palette.size() << " to " << b2.palette.size());
	for (size_t i = 0; i < b.palette.size(); ++i) V_CHECK(b2.palette[i] == b.palette[i], ctx << ": palette entry " << i << " not preserved by write+read");
	V_CHECK(b2.pixels.size() == b.pixels.size(), ctx << ": pixel byte count changed");
	for (uint64_t y = 0; y < H; ++y) for (uint64_t k = 0; k < rb; ++k) V_CHECK(b2.pixels[size_t(y * pt + k)] == b.pixels[size_t(y * pt + k)], ctx << ": pixel byte (row " << y << ", byte " << k << ") not preserved");
	// flipping
	BitmapFile f = b; f.InvertScanLines();
	V_CHECK(f.imageHeader.height == -b.imageHeader.height, ctx << ": InvertScanLines height " << f.imageHeader.height << " != " << -b.imageHeader.height);
	V_CHECK(f.pixels.size() == b.pixels.size(), ctx << ": InvertScanLines changed the pixel count");
	for (uint64_t y = 0; y < H; ++y) V_CHECK(pt == 0 || memcmp(&f.pixels[size_t(y * pt)], &b.pixels[size_t((H - 1 - y) * pt)], size_t(pt)) == 0, ctx << ": InvertScanLines row " << y << " is not source row " << H - 1 - y);
	f.InvertScanLines();
	V_CHECK(f == b, ctx << ": flipping twice does not restore the bitmap");
	if (H >= 2 && pt > rb) st.cls("nt:rows_with_padding");
}

void file_case(const LBmp& L, Stats& st) {
	std::vector<uint8_t> v = refgfx::encode_bmp(L);
	BitmapFile b; std::string what;
	Out o = guarded([&] { b = read_bmp(v); }, &what);
	V_CHECK(o == Out::Ok, "well-formed indexed bitmap refused: " << what << " (" << L.width << "x" << L.height << "@" << L.depth << ", used colours " << L.usedColors << ", shift " << L.shift << ")");
	// fields equal the logical bitmap
	V_CHECK(b.imageHeader.width == L.width && b.imageHeader.height == L.height && b.imageHeader.bitCount == L.depth, "geometry fields differ after read");
	V_CHECK(b.palette.size() == L.palette.size(), "palette size " << b.palette.size() << " != " << L.palette.size());
	for (size_t i = 0; i < L.palette.size(); ++i) V_CHECK(b.palette[i].red == L.palette[i].b0 && b.palette[i].green == L.palette[i].b1 && b.palette[i].blue == L.palette[i].b2 && b.palette[i].alpha == L.palette[i].b3, "palette entry " << i << " differs after read");
	V_CHECK(b.pixels == L.pixels, "pixel bytes differ after read");
	accepted_laws(b, "file bitmap", st);
	st.cls("file:depth" + std::to_string(L.depth)); if (L.usedColors) st.cls("file:partial_palette"); if (L.shift) st.cls("file:shifted_offsets"); if (L.height < 0) st.cls("file:top_down"); if (L.height == 0 || L.width == 0) st.cls("file:empty_dimension");
	uint64_t pt = refgfx::pitch(uint64_t(L.width), L.depth), rb = refgfx::row_bytes(uint64_t(L.width), L.depth);
	if ((absh(L.height) >= 2 && pt > rb) || L.usedColors) st.nt(fnv1a(v.data(), v.size()));
}

// arbitrary header + pixel block: an ordinary error, or an accepted bitmap that obeys the accepted-bitmap laws
void candidate_case(const LBmp& L, Stats& st, const char* cls) {
	std::vector<uint8_t> v = refgfx::encode_bmp(L);
	BitmapFile b; Out o = guarded([&] { b = read_bmp(v); });
	st.cls(std::string(cls) + (o == Out::Ok ? ":accepted" : ":refused"));
	if (o == Out::Ok) accepted_laws(b, cls, st);
	st.nt(fnv1a(v.data(), std::min<size_t>(v.size(), 64), v.size()) ^ 0xC4);
}

// widths whose row bit length reaches 2^32 (8 bpp: width >= 2^29, 4 bpp: width >= 2^30), carrying exactly the pixel bytes a row
// length computed modulo 2^32 would ask for
LBmp wrap32_bmp(unsigned depth, unsigned k, uint32_t w0, int32_t height) {
	LBmp L; L.depth = depth; L.height = height;
	L.width = int32_t((depth == 8 ? (uint32_t(1) << 29) : (uint32_t(1) << 30)) * k + w0);
	for (size_t i = 0; i < (size_t(1) << depth); ++i) L.palette.push_back({uint8_t(i), uint8_t(i * 5), uint8_t(i * 3), 0});
	L.pixels.assign(size_t(refgfx::pitch(w0, depth) * absh(height)), 0x5A);
	return L;
}

void factory_case(unsigned depth, uint32_t width, int32_t height, unsigned mode, Tape& t, Stats& st) {
	BitmapFile b;
	size_t maxc = size_t(1) << depth;
	std::vector<Color> pal; size_t pn = mode >= 1 ? (t.flag() ? maxc : t.below(maxc + 1)) : 0;
	for (size_t i = 0; i < pn; ++i) pal.push_back(Color{t.u8(), uint8_t(i), t.u8(), uint8_t(i * 3)});
	uint64_t pt = refgfx::pitch(width, depth), rb = refgfx::row_bytes(width, depth), H = absh(height);
	std::vector<uint8_t> px(size_t(pt * H), 0);
	if (mode == 2) { auto rnd = t.expand(px.size()); for (uint64_t y = 0; y < H; ++y) for (uint64_t k = 0; k < rb; ++k) px[size_t(y * pt + k)] = rnd[size_t(y * pt + k)]; }
	bool dirtyPad = false; if (mode == 3) { px = t.expand(px.size()); dirtyPad = pt > rb && H > 0; }   // row padding non-zero as well: meaningful bytes survive, padding is written as zero
	std::string what;
	Out o = guarded([&] { b = mode == 0 ? BitmapFile::CreateIndexed(uint16_t(depth), width, height) : mode == 1 ? BitmapFile::CreateIndexed(uint16_t(depth), width, height, pal) : BitmapFile::CreateIndexed(uint16_t(depth), width, height, pal, px); }, &what);
	V_CHECK(o == Out::Ok, "factory refused depth " << depth << " " << width << "x" << height << " mode " << mode << ": " << what);
	for (size_t i = 0; i < pal.size(); ++i) V_CHECK(b.palette[i] == pal[i], "factory dropped palette entry " << i);
	if (mode >= 2) V_CHECK(b.pixels == px, "factory changed the pixels");
	accepted_laws(b, "factory bitmap", st);
	BitmapFile back = read_bmp(write_bmp(b));
	if (dirtyPad) { st.cls("factory:dirty_padding"); return; }   // equality of the whole object is only promised when the padding was zero
	V_CHECK(back == b, "factory bitmap (depth " << depth << ", " << width << "x" << height << ", mode " << mode << ", palette " << pal.size() << ") does not round-trip to an equal object");
	st.cls("factory:mode" + std::to_string(mode));
	if ((H >= 2 && pt > rb) || (pn && pn < maxc)) st.nt(hmix(hmix(depth * 1000 + width, uint32_t(height)), mode * 1000 + pn) ^ 0xFA);
}
} // namespace

void run_case(Tape& t, Stats& st) {
	if (t.below(3) == 0) {
		unsigned depth = t.pick<unsigned>({1, 4, 8}); uint32_t w = uint32_t(t.below(71)); if (t.below(12) == 0) w = t.pick<uint32_t>({255, 256, 1000, 4096});
		int32_t h = int32_t(t.below(81)) - 40; unsigned mode = unsigned(t.below(4));
		if (t.below(24) == 0) { w = t.pick<uint32_t>({65535, 65536, 65537, 65569, 131073}) + uint32_t(t.below(3)) * 8; h = t.pick<int32_t>({1, -1, 2, -3}); }
		if (st.want_sample()) st.sample("{\"factory\":{\"depth\":" + std::to_string(depth) + ",\"width\":" + std::to_string(w) + ",\"height\":" + std::to_string(h) + ",\"mode\":" + std::to_string(mode) + "}}");
		factory_case(depth, w, h, mode, t, st);
		return;
	}
	if (t.below(16) == 0) {
		unsigned depth = t.flag() ? 8 : 4; unsigned k = depth == 8 ? 1 + unsigned(t.below(3)) : 1;
		candidate_case(wrap32_bmp(depth, k, uint32_t(t.below(40)), int32_t(t.below(9)) - 4), st, "wrap32");
		return;
	}
	LBmp L = gen_lbmp(t);
	if (st.want_sample()) st.sample("{\"file\":{\"depth\":" + std::to_string(L.depth) + ",\"width\":" + std::to_string(L.width) + ",\"height\":" + std::to_string(L.height) + ",\"used_colors\":" + std::to_string(L.usedColors) + ",\"shift\":" + std::to_string(L.shift) + "}}");
	if (L.compression != 0) { candidate_case(L, st, "nonzero_compression_field"); return; }   // refusing such a file is as good as accepting it lawfully
	// one file in ten carries a few bytes more (or fewer) pixel data than width x height asks for, counted in the size field and present in the
	// stream - e.g. a file padded to a multiple of four: refused, or accepted and then lawful (exactly |height| rows of the pitch)
	if (t.below(10) == 0) { int d = t.pick<int>({1, 2, 3, 1, 2, 3, 4, 8, -1, -2, -4}); if (d > 0 || L.pixels.size() >= size_t(-d)) { L.pixels.resize(L.pixels.size() + size_t(int64_t(d)), 0x11); candidate_case(L, st, d > 0 ? "surplus_pixel_bytes" : "missing_pixel_bytes"); return; } }
	file_case(L, st);
}

void run_sweep(Stats& st) {
	std::vector<uint8_t> tp(512); for (size_t i = 0; i < tp.size(); ++i) tp[i] = uint8_t(i * 37 + 11);
	// every (depth, width <= 70) x heights x palette mode: covers every residue of row bits mod 32
	for (unsigned depth : {1u, 4u, 8u}) for (int32_t width = 0; width <= 70; ++width) for (int32_t height : {-3, -2, -1, 0, 1, 2, 3}) {
		if (!sw("dims", depth, uint64_t(width), uint64_t(height + 8))) continue;
		for (unsigned pm = 0; pm < 3; ++pm) {
			LBmp L; L.depth = depth; L.width = width; L.height = height; unsigned maxc = 1u << depth;
			L.usedColors = pm == 0 ? 0 : pm == 1 ? 1 : maxc;
			size_t entries = L.usedColors ? L.usedColors : maxc;
			for (size_t i = 0; i < entries; ++i) L.palette.push_back({uint8_t(i), uint8_t(i * 2), uint8_t(i * 3), uint8_t(255 - i)});
			L.pixels.resize(size_t(refgfx::pitch(uint64_t(width), depth) * absh(height))); for (size_t i = 0; i < L.pixels.size(); ++i) L.pixels[i] = uint8_t(0xA5 ^ (i * 13));
			if (pm == 2) { L.imageSize = uint32_t(L.pixels.size()); L.xRes = 2835; L.yRes = 2835; }   // stated image size and resolution, as ordinary encoders write them
			file_case(L, st);
		}
		for (unsigned mode = 0; mode < 3; ++mode) { Tape t(tp); factory_case(depth, uint32_t(width), height, mode, t, st); }
		for (int d : {1, 2, 3, 4, -1}) {   // surplus / missing pixel bytes, counted in the size field: refused, or accepted and lawful
			LBmp L; L.depth = depth; L.width = width; L.height = height; for (size_t i = 0; i < (size_t(1) << depth); ++i) L.palette.push_back({uint8_t(i), uint8_t(i * 2), uint8_t(i * 3), 0});
			size_t n = size_t(refgfx::pitch(uint64_t(width), depth) * absh(height)); if (d < 0 && n == 0) continue;
			L.pixels.assign(n + size_t(int64_t(d)), 0x6E); if (d == 4) { L.imageSize = uint32_t(n); }
			candidate_case(L, st, d > 0 ? "surplus_pixel_bytes" : "missing_pixel_bytes");
		}
	}
	// rows wider than any 16-bit quantity (a width, a pitch or a row bit count squeezed through 16 bits would alias a narrow picture)
	for (unsigned depth : {1u, 4u, 8u}) for (uint32_t width : {65535u, 65536u, 65537u, 65569u, 131072u, 131073u, (1u << 20) + 1}) for (int32_t height : {1, -2, 3}) {
		if (depth != 1 && width > 200000) continue;
		if (!sw("wide", depth, width, uint64_t(height + 8))) continue;
		LBmp L; L.depth = depth; L.width = int32_t(width); L.height = height; for (size_t i = 0; i < (size_t(1) << depth); ++i) L.palette.push_back({uint8_t(i), uint8_t(i * 2), uint8_t(i * 3), uint8_t(255 - i)});
		L.pixels.resize(size_t(refgfx::pitch(uint64_t(width), depth) * absh(height))); for (size_t i = 0; i < L.pixels.size(); ++i) L.pixels[i] = uint8_t(0x3C ^ (i * 29) ^ (i >> 9));
		file_case(L, st);
		for (unsigned mode : {0u, 2u}) { Tape t(tp); factory_case(depth, width, height, mode, t, st); }
	}
	// factory dimensions at the edge of the width type: 2^31-1 columns with no rows is a legal (empty) bitmap; widths that are negative as int32 are refused
	for (unsigned depth : {1u, 4u, 8u}) {
		if (!sw("factory_extreme_width", depth)) continue;
		BitmapFile e; std::string what; Out o = guarded([&] { e = BitmapFile::CreateIndexed(uint16_t(depth), 0x7FFFFFFFu, 0); }, &what);
		V_CHECK(o == Out::Ok, "factory refused depth " << depth << " width 2^31-1 height 0: " << what);
		V_CHECK(e.pixels.empty() && e.imageHeader.width == 0x7FFFFFFF && e.imageHeader.height == 0, "factory bitmap 2^31-1 x 0 has pixels or other geometry");
		V_CHECK(read_bmp(write_bmp(e)) == e, "factory bitmap 2^31-1 x 0 does not round-trip to an equal object");
		for (uint32_t w : {0x80000000u, 0x80000001u, 0xFFFFFFFFu}) for (int32_t h : {0, 1, -1}) V_CHECK(guarded([&] { BitmapFile::CreateIndexed(uint16_t(depth), w, h); }) == Out::Err, "factory accepted width " << w << " (negative as a signed 32-bit value) height " << h);
	}
	// row bit lengths that reach 2^32: pixel data sized for the row length modulo 2^32 must not be accepted as a consistent bitmap
	for (unsigned depth : {4u, 8u}) for (unsigned k = 1; k <= (depth == 8 ? 3u : 1u); ++k) for (uint32_t w0 = 0; w0 <= 12; ++w0) for (int32_t height : {-2, -1, 0, 1, 2, 3}) {
		if (!sw("wrap32", depth, k, w0, uint64_t(height + 8))) continue;
		candidate_case(wrap32_bmp(depth, k, w0, height), st, "wrap32");
	}
	st.exhaustive = true;
}

void write_seeds(const std::string&) {}
