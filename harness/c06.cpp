// C06 — map read/write round-trips every field and is byte-stable; edits change exactly what they name.
#include "map_common.h"
#include "Stream/MemoryReader.h"
#include "Stream/DynamicMemoryWriter.h"
#include "Stream/FileReader.h"
#include <memory>

using namespace verif;
using namespace OP2Utility;
using refmap::LMap;
const char* const PROP_ID = "C06";

namespace {
bool g_stale_longer_file = false;
bool g_write_via_file = false;   // per case: serialise through Map::Write(filename) instead of a memory writer
std::vector<uint8_t> write_map(const Map& m) {
	if (g_write_via_file) { std::string p = scratch_path("c06_w.map"); remove(p.c_str()); if (g_stale_longer_file) write_file(p, std::vector<uint8_t>(400000, 0x5C)); /* an existing longer file must be replaced, not overwritten in place */ m.Write(p); std::vector<uint8_t> out; V_CHECK(read_file(p, out), "Map::Write(filename) produced no file"); return out; }
	Stream::DynamicMemoryWriter w; m.Write(w);
	std::vector<uint8_t> out(w.Length()); auto r = w.GetReader(); r.Read(out.data(), out.size());
	return out;
}
Map read_mem(const std::vector<uint8_t>& b) {
	uint8_t* heap = static_cast<uint8_t*>(malloc(b.size() ? b.size() : 1));
	struct F { uint8_t* p; ~F() { free(p); } } g{heap};
	if (!b.empty()) memcpy(heap, b.data(), b.size());
	if (fnv1a(b.data(), b.size()) & 1) return Map::ReadMap(Stream::MemoryReader(heap, b.size()));   // the overload taking a temporary stream
	Stream::MemoryReader r(heap, b.size());
	return Map::ReadMap(r);
}

void mask_unknown(std::vector<uint8_t>& v, size_t at) { for (int i = 0; i < 4 && at + i < v.size(); ++i) v[at + i] = 0; }

void first_diff(const std::vector<uint8_t>& a, const std::vector<uint8_t>& b, const char* what) {
	if (a == b) return;
	size_t at = 0; while (at < a.size() && at < b.size() && a[at] == b[at]) ++at;
	V_CHECK(false, what << ": byte strings differ at offset " << at << " (lengths " << a.size() << " vs " << b.size() << ")");
}

void map_case(const LMap& m0, Tape& t, Stats& st) {
	LMap m = m0;
	refmap::Layout L;
	std::vector<uint8_t> in = refmap::encode(m, &L);
	bool viaFile = t.below(4) == 0;
	g_write_via_file = t.below(5) == 0; g_stale_longer_file = t.flag(); if (g_write_via_file) st.cls(g_stale_longer_file ? "write_via_file_over_longer_file" : "write_via_file");
	Map map;
	if (viaFile) { std::string p = scratch_path("c06.map"); write_file(p, in); map = Map::ReadMap(p); }
	else map = read_mem(in);
	mapgen::compare(map, m, "after read");
	// written bytes == consumed input with flag normalised and the unknown word masked
	std::vector<uint8_t> w1 = write_map(map);
	std::vector<uint8_t> consumed(in.begin(), in.begin() + L.end);
	uint32_t flag = m.savedFlag != 0 ? 1 : 0; for (int i = 0; i < 4; ++i) consumed[4 + i] = uint8_t(flag >> (8 * i));
	std::vector<uint8_t> w1m = w1; mask_unknown(w1m, L.unknownAt); mask_unknown(consumed, L.unknownAt);
	first_diff(w1m, consumed, "bytes written after reading vs bytes consumed by the reader (flag normalised, unknown word masked)");
	{ std::vector<uint8_t> c = refmap::canonical(m); first_diff(w1, c, "written bytes vs reference serialisation of the logical map"); }
	{ Stream::DynamicMemoryWriter w2; map.Write(w2); map.Write(w2); std::vector<uint8_t> two(w2.Length()); auto r2 = w2.GetReader(); r2.Read(two.data(), two.size());
	  V_CHECK(two.size() == 2 * w1.size() && std::equal(w1.begin(), w1.end(), two.begin()) && std::equal(w1.begin(), w1.end(), two.begin() + w1.size()), "writing the same map twice into one writer does not give two identical images (Write changed the object?)");
	  mapgen::compare(map, m, "after writing (Write must not alter the map)"); }
	// byte-stable from then on
	Map map2 = read_mem(w1);
	LMap mc = m; mc.trailing.clear();
	mapgen::compare(map2, mc, "after write+read");
	std::vector<uint8_t> w2 = write_map(map2);
	first_diff(w2, w1, "second write vs first write (byte stability)");
	// edits
	unsigned ne = unsigned(t.below(31)); uint64_t width = uint64_t(1) << m.lgWidth; unsigned edits = 0;
	// Copies are independent objects: at every fifth edit the map is copied (copy-assigned, copy-constructed, or copied and the original then
	// destroyed) and the edits continue on the COPY - first of all at the cell touched last; the originals stay alive and must still hold
	// what they held when they were copied.
	std::vector<std::pair<std::unique_ptr<Map>, LMap>> originals; bool justForked = false, haveLast = false; uint64_t lastX = 0, lastY = 0;
	for (unsigned e = 0; e < ne; ++e) {
		unsigned op = unsigned(t.below(4));
		if (e % 5 == 3 && m.tiles.size() <= 70000) {
			unsigned kind = (e / 5) % 3;
			auto keep = std::make_unique<Map>(std::move(map));
			if (kind == 1) { Map b(*keep); map = std::move(b); } else map = *keep;
			LMap snap = m; snap.trailing.clear();
			if (kind == 2) keep.reset(); else originals.emplace_back(std::move(keep), snap);
			justForked = true; st.cls(kind == 0 ? "edit:continue_on_copy_assigned_map" : kind == 1 ? "edit:continue_on_copy_constructed_map" : "edit:continue_on_copy_original_destroyed");
		}
		if (e % 7 == 6 && m.versionTag >= 0x1010) { map = read_mem(write_map(map)); m.savedFlag = m.savedFlag != 0; m.trailing.clear(); st.cls("edit:write_read_cycle_between_edits"); }   // edit, write, read, edit ... must equal edit, edit, ...
		if ((op == 0 || op == 1) && (width < 32 || m.height == 0)) op = 2;
		switch (op) {
		case 0: { uint64_t x = t.below(width), y = t.below(m.height); unsigned ct = unsigned(t.below(32)); if (justForked && haveLast) { x = lastX; y = lastY; ct = (ct & 30) | ((m.tiles[refmap::tile_index(x, y, m.height)] & 1) ^ 1); } lastX = x; lastY = y; haveLast = true; justForked = false; size_t idx = refmap::tile_index(x, y, m.height);
			map.SetCellType(static_cast<CellType>(ct), x, y); m.tiles[idx] = (m.tiles[idx] & ~31u) | ct; ++edits; st.cls("edit:cell_type"); break; }
		case 1: { uint64_t x = t.below(width), y = t.below(m.height); bool v = t.flag(); if (justForked && haveLast) { x = lastX; y = lastY; v = !((m.tiles[refmap::tile_index(x, y, m.height)] >> 28) & 1); } lastX = x; lastY = y; haveLast = true; justForked = false; size_t idx = refmap::tile_index(x, y, m.height);
			map.SetLavaPossible(v, x, y); m.tiles[idx] = (m.tiles[idx] & ~(1u << 28)) | (uint32_t(v) << 28); ++edits; st.cls("edit:lava_possible"); break; }
		case 2: { uint32_t tag = t.pick<uint32_t>({0, 1, 0x100F, 0x1010, 0x1011, 0xFFFFFFFF, 0x7FFFFFFF}); if (t.flag()) tag = t.u32(); map.SetVersionTag(tag); m.versionTag = tag; ++edits; st.cls("edit:version_tag"); break; }
		default: { map.TrimTilesetSources(); std::vector<refmap::Source> keep; for (auto& s : m.sources) if (!(s.numTiles == 0 || s.name.empty())) keep.push_back(s); m.sources = keep; ++edits; st.cls("edit:trim_sources"); break; }
		}
	}
	for (auto& om : originals) { mapgen::compare(*om.first, om.second, "a map that was copied, after edits of its copy (copies must be independent)"); }
	if (!originals.empty() && originals.back().second.versionTag >= 0x1010) first_diff(write_map(*originals.back().first), refmap::canonical(originals.back().second), "bytes written by a map that was copied, after edits of its copy");
	if (edits) {
		LMap me = m; me.trailing.clear();
		mapgen::compare(map, me, "after edits");
		std::vector<uint8_t> w3 = write_map(map);
		first_diff(w3, refmap::canonical(me), "bytes written after edits vs reference serialisation of the edited model");
		Map back; std::string what;
		Out o = guarded([&] { back = read_mem(w3); }, &what);
		if (me.versionTag < 0x1010) V_CHECK(o == Out::Err, "map written with version tag " << me.versionTag << " (< 0x1010) was read back without error");
		else { V_CHECK(o == Out::Ok, "re-reading the edited map failed: " << what); LMap mm = me; mm.savedFlag = me.savedFlag != 0; mapgen::compare(back, mm, "re-read after edits"); first_diff(write_map(back), w3, "byte stability after edits"); }
	}
	st.cls("lg_width:" + std::to_string(m.lgWidth));
	bool emptyName = false, zeroArea = false; for (auto& s : m0.sources) if (s.name.empty()) emptyName = true; for (auto& g : m0.groups) if (g.w == 0 || g.h == 0) zeroArea = true;
	if (emptyName) st.cls("source_with_empty_name"); if (zeroArea) st.cls("group_with_zero_area"); if (!m0.trailing.empty()) st.cls("trailing_bytes"); if (viaFile) st.cls("read_via_file");
	if (!m0.tiles.empty() && (!m0.sources.empty() || !m0.mappings.empty() || !m0.terrains.empty() || !m0.groups.empty())) st.nt(fnv1a(in.data(), in.size(), edits));
}
} // namespace

void run_case(Tape& t, Stats& st) {
	LMap m = mapgen::gen_lmap(t, g_thorough ? (1u << 20) : 65536);
	if (st.want_sample()) st.sample(mapgen::render(m));
	map_case(m, t, st);
}

void run_sweep(Stats& st) {
	std::vector<uint8_t> tp(400, 0);
	// every width 2^0..2^10 x heights {0,1,2,33} x table-shape variants, with a fixed edit script
	for (unsigned lg = 0; lg <= 10; ++lg) for (uint32_t h : {0u, 1u, 2u, 33u}) for (unsigned variant = 0; variant < 6; ++variant) {
		if (!sw("shape", lg, h, variant)) continue;
		LMap m; m.lgWidth = lg; m.height = h; m.tiles.resize(size_t(h) << lg); for (size_t i = 0; i < m.tiles.size(); ++i) m.tiles[i] = uint32_t(i * 0x9E3779B1u + variant);
		m.versionTag = variant == 5 ? 0x1010 : 0x1011; m.savedFlag = variant == 1 ? 2 : variant == 2 ? -1 : 0;
		m.clip[0] = -1; m.clip[1] = 0; m.clip[2] = 0x7FFFFFFF; m.clip[3] = int32_t(h);
		if (variant >= 1) { m.sources = {{"well0001", 432}, {"", 0}, {"x", 0}, {"abcdefgh", 7}}; m.mappings = {{1, 2, 3, 4}, {0xFFFF, 0, 0, 1}}; }
		if (variant >= 2) { std::array<uint8_t, 264> a; for (size_t k = 0; k < 264; ++k) a[k] = uint8_t(k); m.terrains = {a, a}; }
		if (variant >= 3) { refmap::Group g; g.w = 2; g.h = 3; g.indices = {1, 2, 3, 4, 5, 6}; g.name = "rock"; refmap::Group z; z.w = 0; z.h = 5; z.name = ""; m.groups = {g, z}; m.unknownWord = variant == 4 ? 0xABCDEF01 : 1; }
		if (variant == 4) m.trailing = {1, 2, 3};
		for (size_t i = 0; i < tp.size(); ++i) tp[i] = uint8_t(i * 29 + variant * 7 + lg);
		tp[0] = uint8_t(variant); tp[1] = 12;
		Tape t(tp); map_case(m, t, st);
	}
	// more than 65536 tiles, and not a multiple of 65536 (whatever block size a reader takes the tile array in)
	for (unsigned v = 0; v < 4; ++v) { if (!sw("many_tiles", v)) continue; const unsigned dims[4][2] = {{9, 129}, {10, 65}, {7, 1000}, {5, 4097}};
		LMap m; m.lgWidth = dims[v][0]; m.height = dims[v][1]; m.tiles.resize(size_t(m.height) << m.lgWidth); for (size_t i = 0; i < m.tiles.size(); ++i) m.tiles[i] = uint32_t(i * 0x9E3779B1u + v); m.versionTag = 0x1011; m.mappings = {{1, 2, 3, 4}}; m.sources = {{"well0001", 9}};
		for (size_t i = 0; i < tp.size(); ++i) tp[i] = uint8_t(i * 13 + v); tp[1] = 6;
		Tape t(tp); map_case(m, t, st); }
	// every table on its own grown past 64 KiB and 128 KiB of serialised bytes (a staging block of such a size must not show), with eight
	// alignments of the group section so that the block boundary falls into dimensions, index arrays, name lengths and names
	for (unsigned which = 0; which < 4; ++which) for (unsigned v = 0; v < (which == 0 ? 8u : 2u); ++v) {
		if (!sw("big_section", which, v)) continue;
		LMap m; m.lgWidth = 5; m.height = 1; m.tiles.assign(32, 0x12345678); m.versionTag = 0x1011; m.clip[0] = 1; m.clip[1] = 2; m.clip[2] = 3; m.clip[3] = 4;
		if (which == 0) for (unsigned i = 0; i < 3000; ++i) { refmap::Group g; g.w = 3; g.h = 3 - (i % 7 == 0); g.indices.resize(size_t(g.w) * g.h); for (size_t k = 0; k < g.indices.size(); ++k) g.indices[k] = uint16_t(i * 9 + k); g.name = std::string((i + v) % 8 + (i % 501 == 0 ? 300 : 0), char('a' + i % 26)); if (!g.name.empty()) g.name[0] = char('A' + (i >> 5) % 26); m.groups.push_back(g); }
		if (which == 1) for (unsigned i = 0; i < 300u + 300u * v; ++i) { std::array<uint8_t, 264> a; for (size_t k = 0; k < 264; ++k) a[k] = uint8_t(k * 3 + i); a[0] = uint8_t(i); a[1] = uint8_t(i >> 8); m.terrains.push_back(a); }
		if (which == 2) for (unsigned i = 0; i < 9000u + 9000u * v; ++i) m.mappings.push_back({uint16_t(i), uint16_t(i * 3), uint16_t(i >> 3), uint16_t(~i)});
		if (which == 3) for (unsigned i = 0; i < 5000u + 6000u * v; ++i) { refmap::Source src; if (i % 5) { src.name = "t" + std::to_string(i % 9973); src.numTiles = i; } m.sources.push_back(src); }
		m.unknownWord = uint32_t(m.groups.size());
		for (size_t i = 0; i < tp.size(); ++i) tp[i] = uint8_t(i * 31 + which * 5 + v); tp[0] = uint8_t(v); tp[1] = uint8_t(which);
		Tape t(tp); map_case(m, t, st);
	}
	st.exhaustive = true;
}

void write_seeds(const std::string&) {}
