// Global operator new/delete: malloc-backed (ASan still checks every access), with a per-request cap that
// turns "allocate what the header says" into an ordinary std::bad_alloc (DESIGN.md 2.5), and an optional
// fill byte so that fresh heap memory holds chosen garbage (C18).
#include <cstdlib>
#include <cstring>
#include <new>
#include <cstdint>

static size_t g_cap = 0;
// the cap only applies while a case is executing (set by the driver loop), never to libFuzzer/rapidcheck internals
int verif_cap_active = 0;
static int g_fill = -2; // -2 = unread, -1 = none
static void init() {
	const char* c = getenv("VERIF_ALLOC_CAP");
	g_cap = c ? strtoull(c, nullptr, 10) : (size_t(256) << 20);
	const char* f = getenv("VERIF_HEAP_FILL");
	g_fill = f ? (atoi(f) & 0xff) : -1;
}
static void* alloc(size_t n) {
	if (g_fill == -2) init();
	if (verif_cap_active && n > g_cap) throw std::bad_alloc();
	void* p = malloc(n ? n : 1);
	if (!p) throw std::bad_alloc();
	if (g_fill >= 0) memset(p, g_fill, n);
	return p;
}
void* operator new(size_t n) { return alloc(n); }
void* operator new[](size_t n) { return alloc(n); }
void* operator new(size_t n, const std::nothrow_t&) noexcept { try { return alloc(n); } catch (...) { return nullptr; } }
void* operator new[](size_t n, const std::nothrow_t&) noexcept { try { return alloc(n); } catch (...) { return nullptr; } }
void operator delete(void* p) noexcept { free(p); }
void operator delete[](void* p) noexcept { free(p); }
void operator delete(void* p, size_t) noexcept { free(p); }
void operator delete[](void* p, size_t) noexcept { free(p); }
