// Un-sanitised flavours (varP / varZ): no rapidcheck, no libFuzzer; used as differently-poisoned child processes.
#define VERIF_PLAIN 1
#include "main.cpp"
