// Common layer of the OP2Utility property harnesses (DESIGN.md 2.3).
// A case is a byte tape; each property TU implements run_case()/run_sweep().
#pragma once
#include <cstdint>
#include <cstddef>
#include <cstring>
#include <cstdio>
#include <cstdlib>
#include <string>
#include <vector>
#include <map>
#include <set>
#include <unordered_set>
#include <exception>
#include <stdexcept>
#include <sstream>
#include <initializer_list>
#include <functional>

namespace verif {

// Oracle failure.  Never derives from std::exception so that library-side `catch (std::exception&)`
// wrappers cannot swallow it.
struct Violation {
	std::string msg;
};

[[noreturn]] inline void fail(const std::string& m) { throw Violation{m}; }

#define V_CHECK(cond, ...) do { if (!(cond)) { std::ostringstream _os; _os << __FILE__ << ":" << __LINE__ << ": " << #cond << " :: " << __VA_ARGS__; ::verif::fail(_os.str()); } } while (0)

inline uint64_t fnv1a(const void* p, size_t n, uint64_t h = 1469598103934665603ULL) {
	const uint8_t* b = static_cast<const uint8_t*>(p);
	for (size_t i = 0; i < n; ++i) { h ^= b[i]; h *= 1099511628211ULL; }
	return h;
}
inline uint64_t hmix(uint64_t h, uint64_t v) { return fnv1a(&v, sizeof v, h); }

// Byte tape with FuzzedDataProvider-like accessors.  Exhausted tape yields zeros, i.e. the simplest choice.
class Tape {
public:
	Tape(const uint8_t* d, size_t n) : d_(d), n_(n), pos_(0) {}
	explicit Tape(const std::vector<uint8_t>& v) : d_(v.data()), n_(v.size()), pos_(0) {}
	bool empty() const { return pos_ >= n_; }
	size_t remaining() const { return pos_ >= n_ ? 0 : n_ - pos_; }
	size_t size() const { return n_; }
	const uint8_t* data() const { return d_; }
	uint8_t u8() { return pos_ < n_ ? d_[pos_++] : (pos_++, 0); }
	uint16_t u16() { uint16_t a = u8(); return a | (uint16_t(u8()) << 8); }
	uint32_t u32() { uint32_t a = u16(); return a | (uint32_t(u16()) << 16); }
	uint64_t u64() { uint64_t a = u32(); return a | (uint64_t(u32()) << 32); }
	bool flag() { return u8() & 1; }
	// uniform-ish in [0,n); n==0 -> 0.  Consumes 1, 2 or 4 bytes depending on n.
	uint64_t below(uint64_t n) {
		if (n <= 1) return 0;
		if (n <= 256) return u8() % n;
		if (n <= 65536) return u16() % n;
		if (n <= 0x100000000ULL) return u32() % n;
		return u64() % n;
	}
	uint64_t range(uint64_t lo, uint64_t hi) { return lo + below(hi - lo + 1); } // inclusive
	template <class T> T pick(std::initializer_list<T> l) { return *(l.begin() + below(l.size())); }
	template <class T> const T& pick(const std::vector<T>& l) { return l[below(l.size())]; }
	std::vector<uint8_t> bytes(size_t k) { std::vector<uint8_t> v(k); for (auto& b : v) b = u8(); return v; }
	// k pseudo-random bytes expanded from an 8-byte tape seed (keeps tapes short for big payloads)
	std::vector<uint8_t> expand(size_t k) {
		uint64_t s = u64() * 0x9E3779B97F4A7C15ULL + 0x1234567;
		std::vector<uint8_t> v(k);
		for (size_t i = 0; i < k; ++i) { s ^= s << 13; s ^= s >> 7; s ^= s << 17; v[i] = uint8_t(s >> 24); }
		return v;
	}
	std::vector<uint8_t> rest() { std::vector<uint8_t> v; if (pos_ < n_) v.assign(d_ + pos_, d_ + n_); pos_ = n_; return v; }
private:
	const uint8_t* d_; size_t n_, pos_;
};

struct Stats {
	uint64_t evaluations = 0;
	std::map<std::string, uint64_t> classes;
	std::unordered_set<uint64_t> nontrivial;   // hashes of distinct non-trivial cases (capped)
	uint64_t nontrivial_overflow = 0;           // non-trivial cases seen after the cap (not known distinct)
	std::vector<std::string> samples;
	bool exhaustive = false;                    // set by sweeps that completed a finite enumeration
	std::map<std::string, uint64_t> excluded;   // exclusions by known finding
	void cls(const std::string& c, uint64_t n = 1) { classes[c] += n; }
	void nt(uint64_t h) { if (nontrivial.size() < 400000) nontrivial.insert(h); else if (!nontrivial.count(h)) ++nontrivial_overflow; }
	void sample(const std::string& s) { if (samples.size() < 8) samples.push_back(s); else if ((evaluations & 1023) == 0) samples[(evaluations >> 10) % 8] = s; }
	bool want_sample() const { return samples.size() < 8 || (evaluations & 1023) == 0; }
};

// ---- per-process scratch directory (tmpfs) ----
const std::string& scratch_dir();                       // created on first use, removed at exit
std::string scratch_path(const std::string& leaf);      // scratch_dir()/leaf
void scratch_clean();                                   // remove everything below scratch_dir()
void write_file(const std::string& path, const void* p, size_t n);
inline void write_file(const std::string& path, const std::vector<uint8_t>& v) { write_file(path, v.data(), v.size()); }
bool read_file(const std::string& path, std::vector<uint8_t>& out);
bool file_exists(const std::string& path);

// ---- helpers ----
std::string hex(const void* p, size_t n, size_t maxn = 48);
inline std::string hex(const std::vector<uint8_t>& v, size_t maxn = 48) { return hex(v.data(), v.size(), maxn); }
std::string jstr(const std::string& s);                 // JSON string literal

// outcome of calling library code that may legitimately throw
enum class Out { Ok, Err };
template <class F> Out guarded(F&& f, std::string* what = nullptr) {
	try { f(); return Out::Ok; }
	catch (const Violation&) { throw; }
	catch (const std::exception& e) { if (what) *what = e.what(); return Out::Err; }
	// anything else propagates and is reported by the driver as a non-std exception
}

// sweeps: label the enumerated case (group + up to 4 numbers).  Returns false when a replay filter
// excludes it.  Counts one evaluation and re-arms the per-case watchdog.
bool sw(const char* group, uint64_t a = 0, uint64_t b = 0, uint64_t c = 0, uint64_t d = 0);

extern bool g_thorough;
extern uint64_t g_seed;
} // namespace verif

// ---- implemented by every property TU ----
extern const char* const PROP_ID;
void run_case(verif::Tape& t, verif::Stats& st);          // throws verif::Violation on oracle failure
void run_sweep(verif::Stats& st);                         // deterministic enumerations (may be empty)
void write_seeds(const std::string& dir);                 // libFuzzer seed corpus (may be empty)
