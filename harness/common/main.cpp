// Mode dispatch shared by all property harnesses: pbt (rapidcheck), fuzz (libFuzzer), sweep, replay, seeds.
#include "verif.h"
#ifndef VERIF_PLAIN
#include <rapidcheck.h>
#endif
#include <unistd.h>
#include <cerrno>
#include <signal.h>
#include <sys/mman.h>
#include <sys/stat.h>
#include <sys/time.h>
#include <sys/resource.h>
#include <fcntl.h>
#include <dirent.h>
#include <ftw.h>
#include <fstream>
#include <iostream>

#ifndef VERIF_PLAIN
extern "C" int LLVMFuzzerRunDriver(int* argc, char*** argv, int (*cb)(const uint8_t*, size_t));
extern "C" void __sanitizer_set_death_callback(void (*cb)(void));
#endif
// child-process role of differential scenarios (C18); weak default for harnesses without one
__attribute__((weak)) int run_scenario_main(int argc, char** argv) { (void)argc; (void)argv; return 2; }
extern int verif_cap_active;

namespace verif {
bool g_thorough = false;
uint64_t g_seed = 1;

static std::string g_outdir = ".";
static Stats g_stats;
static std::string g_scratch;
static bool g_stats_dumped = false;

// current case mirror (survives sanitizer aborts)
static uint8_t g_cur_data[1 << 16];   // private copy of the running tape (the generator may free its own)
static size_t g_cur_len = 0;
static bool g_violation_saved = false;  // an oracle failure was persisted; a later abort must not overwrite it
static char g_sweep_label[256] = "";
static bool g_in_sweep = false;
static char g_sweep_filter[256] = "";
static bool g_have_filter = false;
// History of this process (DESIGN.md 7.8): a failure that only shows after earlier cases of the same process have left state behind in the
// library (a static or thread-local buffer, a cache) does not reproduce from its own tape.  The last cases are therefore kept and
// written beside the failing tape as a multi-case replay file ("TAPES" / "SWEEPSET"), which the driver tries when the single case passes alone.
static std::vector<std::vector<uint8_t>> g_hist;      // ring of the most recent tapes (oldest first after rotation)
static size_t g_hist_head = 0, g_hist_bytes = 0;
static const size_t HIST_MAX = 1024, HIST_BYTES = 16u << 20;
static bool g_hist_saved = false;                      // written once, at the first failure (rapidcheck's shrinking would flush the ring)
static char g_label_ring[128][256];
static size_t g_label_n = 0;
static std::vector<std::string> g_filter_set;          // replay of a SWEEPSET file

std::string jstr(const std::string& s) {
	std::string o = "\"";
	for (unsigned char c : s) {
		if (c == '"' || c == '\\') { o += '\\'; o += char(c); }
		else if (c < 0x20 || c >= 0x7f) { char b[8]; snprintf(b, sizeof b, "\\u%04x", c); o += b; }
		else o += char(c);
	}
	return o + "\"";
}

std::string hex(const void* p, size_t n, size_t maxn) {
	static const char* d = "0123456789abcdef";
	const uint8_t* b = static_cast<const uint8_t*>(p);
	std::string o;
	for (size_t i = 0; i < n && i < maxn; ++i) { o += d[b[i] >> 4]; o += d[b[i] & 15]; }
	if (n > maxn) o += "..(" + std::to_string(n) + "B)";
	return o;
}

static int rm_cb(const char* p, const struct stat*, int, struct FTW*) { return remove(p); }
static void rm_rf(const std::string& p) { nftw(p.c_str(), rm_cb, 32, FTW_DEPTH | FTW_PHYS); }

const std::string& scratch_dir() {
	if (g_scratch.empty()) {
		const char* base = getenv("VERIF_SCRATCH");
		std::string b = base ? base : "/dev/shm";
		g_scratch = b + "/op2verif." + std::to_string(getpid());
		mkdir(b.c_str(), 0700);
		mkdir(g_scratch.c_str(), 0700);
	}
	return g_scratch;
}
std::string scratch_path(const std::string& leaf) { return scratch_dir() + "/" + leaf; }
void scratch_clean() {
	const std::string& d = scratch_dir();
	DIR* dir = opendir(d.c_str());
	if (!dir) return;
	while (dirent* e = readdir(dir)) {
		std::string n = e->d_name;
		if (n == "." || n == "..") continue;
		rm_rf(d + "/" + n);
	}
	closedir(dir);
}
void write_file(const std::string& path, const void* p, size_t n) {
	FILE* f = fopen(path.c_str(), "wb");
	if (!f) {
		if (errno == EMFILE || errno == ENFILE) fail("the harness cannot create its scratch file " + path + ": no file descriptor is left in this process - earlier calls did not give theirs back");
		fprintf(stderr, "harness: cannot write %s\n", path.c_str()); _exit(2);
	}
	if (n) fwrite(p, 1, n, f);
	fclose(f);
}
bool read_file(const std::string& path, std::vector<uint8_t>& out) {
	FILE* f = fopen(path.c_str(), "rb");
	if (!f) return false;
	out.clear();
	uint8_t buf[65536]; size_t k;
	while ((k = fread(buf, 1, sizeof buf, f)) > 0) out.insert(out.end(), buf, buf + k);
	fclose(f);
	return true;
}
bool file_exists(const std::string& path) { struct stat s; return lstat(path.c_str(), &s) == 0; }

// descriptors held in reserve so that a failure can still be written down when the code under test has used up (leaked) all the others
static int g_spare_fd[6] = {-1, -1, -1, -1, -1, -1};
static void release_spares() { for (int& fd : g_spare_fd) if (fd >= 0) { close(fd); fd = -1; } }
static void raw_write_file(const std::string& path, const void* p, size_t n) {   // never throws, never exits
	int fd = open(path.c_str(), O_WRONLY | O_CREAT | O_TRUNC, 0600); if (fd < 0) return;
	const char* c = static_cast<const char*>(p); while (n) { ssize_t k = write(fd, c, n); if (k <= 0) break; c += k; n -= size_t(k); } close(fd);
}

static void dump_stats() {
	if (g_stats_dumped) return;
	g_stats_dumped = true;
	release_spares();
	std::string p = g_outdir + "/stats.json";
	FILE* f = fopen(p.c_str(), "w");
	if (!f) return;
	fprintf(f, "{\"evaluations\":%llu,\"nontrivial_overflow\":%llu,\"exhaustive\":%s,\"classes\":{",
		(unsigned long long)g_stats.evaluations, (unsigned long long)g_stats.nontrivial_overflow, g_stats.exhaustive ? "true" : "false");
	bool first = true;
	for (auto& kv : g_stats.classes) { fprintf(f, "%s%s:%llu", first ? "" : ",", jstr(kv.first).c_str(), (unsigned long long)kv.second); first = false; }
	fprintf(f, "},\"excluded\":{");
	first = true;
	for (auto& kv : g_stats.excluded) { fprintf(f, "%s%s:%llu", first ? "" : ",", jstr(kv.first).c_str(), (unsigned long long)kv.second); first = false; }
	fprintf(f, "},\"samples\":[");
	first = true;
	for (auto& s : g_stats.samples) { fprintf(f, "%s%s", first ? "" : ",", jstr(s).c_str()); first = false; }
	fprintf(f, "]}\n");
	fclose(f);
	std::string q = g_outdir + "/nt.bin";
	f = fopen(q.c_str(), "wb");
	if (f) { for (uint64_t h : g_stats.nontrivial) fwrite(&h, 8, 1, f); fclose(f); }
}

static void save_history() {
	if (g_hist_saved) return;
	release_spares();
	g_hist_saved = true;
	std::string p = g_outdir + "/fail.hist";
	int fd = open(p.c_str(), O_WRONLY | O_CREAT | O_TRUNC, 0600);
	if (fd < 0) return;
	if (g_in_sweep) {
		(void)!write(fd, "SWEEPSET\n", 9);
		size_t n = g_label_n < 128 ? g_label_n : 128;
		for (size_t k = 0; k < n; ++k) { const char* l = g_label_ring[(g_label_n - n + k) % 128]; (void)!write(fd, l, strlen(l)); (void)!write(fd, "\n", 1); }
	} else {
		(void)!write(fd, "TAPES\n", 6);
		size_t n = g_hist.size();
		for (size_t k = 0; k < n; ++k) {
			const std::vector<uint8_t>& v = g_hist[(g_hist_head + k) % n];
			uint32_t len = uint32_t(v.size()); (void)!write(fd, &len, 4); if (len) (void)!write(fd, v.data(), len);
		}
	}
	close(fd);
}

static void save_failure(const char* kind, const std::string& msg) {
	// replay file: either the raw tape or a "SWEEP <label>" line
	release_spares();
	save_history();
	std::string p = g_outdir + "/fail.tape";
	if (g_in_sweep) {
		std::string s = std::string("SWEEP ") + g_sweep_label + "\n";
		raw_write_file(p, s.data(), s.size());
	} else {
		raw_write_file(p, g_cur_data, g_cur_len);
	}
	std::string m = std::string(kind) + ": " + msg + "\n";
	raw_write_file(g_outdir + "/fail.msg", m.data(), m.size());
}

static void death_cb() {
	// sanitizer report in progress: persist the case and the counters (no atexit will run)
	if (!g_violation_saved) save_failure("sanitizer", g_in_sweep ? g_sweep_label : "see stderr");
	else save_history();
	dump_stats();
	if (!g_scratch.empty()) rm_rf(g_scratch);
}

static void on_alarm(int) {
	// async-signal context: keep it simple
	save_history();
	int fd = open((g_outdir + "/fail.tape").c_str(), O_WRONLY | O_CREAT | O_TRUNC, 0600);
	if (fd >= 0) {
		if (g_in_sweep) { (void)!write(fd, "SWEEP ", 6); (void)!write(fd, g_sweep_label, strlen(g_sweep_label)); (void)!write(fd, "\n", 1); }
		else if (g_cur_len) (void)!write(fd, g_cur_data, g_cur_len);
		close(fd);
	}
	fd = open((g_outdir + "/fail.msg").c_str(), O_WRONLY | O_CREAT | O_TRUNC, 0600);
	if (fd >= 0) { (void)!write(fd, "timeout\n", 8); close(fd); }
	_exit(97);
}

// the driver ends a worker at the stage time limit with SIGTERM: what was counted so far is written down before leaving
static void on_term(int) { dump_stats(); if (!g_scratch.empty()) rm_rf(g_scratch); _exit(96); }

static unsigned g_case_timeout = 10;
static void arm() { alarm(g_case_timeout); verif_cap_active = 1; }
static void disarm() { alarm(0); verif_cap_active = 0; }

// sweeps: label the current enumerated case; returns false if a replay filter excludes it
} // namespace verif

namespace verif {
bool sw(const char* group, uint64_t a, uint64_t b, uint64_t c, uint64_t d) {
	snprintf(g_sweep_label, sizeof g_sweep_label, "%s %llu %llu %llu %llu", group,
		(unsigned long long)a, (unsigned long long)b, (unsigned long long)c, (unsigned long long)d);
	if (g_have_filter) {
		if (g_filter_set.empty()) { if (strcmp(g_sweep_filter, g_sweep_label) != 0) return false; }
		else { bool in = false; for (auto& f : g_filter_set) if (f == g_sweep_label) in = true; if (!in) return false; }
	}
	memcpy(g_label_ring[g_label_n++ % 128], g_sweep_label, sizeof g_sweep_label);
	++g_stats.evaluations;
	arm();
	return true;
}
}

using namespace verif;

static int run_one(const uint8_t* d, size_t n, std::string* msg) {
	g_cur_len = n < sizeof g_cur_data ? n : sizeof g_cur_data;
	if (g_cur_len) memcpy(g_cur_data, d, g_cur_len);
	++g_stats.evaluations;
	if (!g_hist_saved) {
		std::vector<uint8_t> cp(d, d + g_cur_len);
		g_hist_bytes += cp.size();
		if (g_hist.size() < HIST_MAX) g_hist.push_back(std::move(cp));
		else { g_hist_bytes -= g_hist[g_hist_head].size(); g_hist[g_hist_head] = std::move(cp); g_hist_head = (g_hist_head + 1) % HIST_MAX; }
		while (g_hist_bytes > HIST_BYTES && g_hist.size() == HIST_MAX) {   // byte cap: blank the oldest entries (kept as empty tapes)
			size_t k = 0; for (; k < HIST_MAX; ++k) { auto& v = g_hist[(g_hist_head + k) % HIST_MAX]; if (!v.empty()) { g_hist_bytes -= v.size(); v.clear(); v.shrink_to_fit(); break; } }
			if (k == HIST_MAX) break;
		}
	}
	Tape t(d, n);
	arm();
	try { run_case(t, g_stats); }
	catch (const Violation& v) { disarm(); *msg = v.msg; return 1; }
	catch (const std::exception& e) { disarm(); *msg = std::string("unexpected std::exception escaped the case: ") + e.what(); return 1; }
	catch (...) { disarm(); *msg = "non-std exception escaped"; return 1; }
	disarm();
	return 0;
}

static void at_exit() { dump_stats(); if (!g_scratch.empty()) rm_rf(g_scratch); }

#ifndef VERIF_PLAIN
static int fuzz_cb(const uint8_t* d, size_t n) {
	std::string msg;
	if (run_one(d, n, &msg)) {
		save_failure("violation", msg);
		g_violation_saved = true;
		dump_stats();
		fprintf(stderr, "ORACLE VIOLATION: %s\n", msg.c_str());
		if (!g_scratch.empty()) rm_rf(g_scratch);
		_exit(98);
	}
	return 0;
}


static int mode_pbt(int n, int maxsize) {
	// rapidcheck is configured through RC_PARAMS only
	std::string params = "seed=" + std::to_string(g_seed) + " max_success=" + std::to_string(n) +
		" max_size=" + std::to_string(maxsize) + " max_discard_ratio=100 noshrink=0";
	setenv("RC_PARAMS", params.c_str(), 1);
	using namespace rc;
	// byte generator: mostly uniform, with boundary bytes spliced in
	auto uni = gen::resize(1000, gen::map(gen::inRange<int>(0, 256), [](int v) { return uint8_t(v); }));
	auto bnd = gen::element<uint8_t>(0x00, 0x01, 0x02, 0x7f, 0x80, 0xfe, 0xff, 0x03, 0x04, 0x08, 0x10, 0x20, 0x40);
	auto byteGen = gen::weightedOneOf<uint8_t>({ {5, uni}, {2, bnd} });
	auto tapeGen = gen::container<std::vector<uint8_t>>(byteGen);
	// rapidcheck has no bound on shrinking; under ASan its own bookkeeping makes long tapes take many minutes.  After the first
	// failure at most `shrinkBudget` further executions are spent on shrinking (a deterministic count, not a clock): later
	// candidates are reported as passing, so rapidcheck stops at the smallest failing tape found so far (already saved).
	static bool failedOnce = false; static unsigned shrinkExecs = 0; const unsigned shrinkBudget = 3000;
	bool ok = rc::check(std::string("property ") + PROP_ID, [&]() {
		auto tape = *tapeGen;
		if (failedOnce && ++shrinkExecs > shrinkBudget) return;
		std::string msg;
		if (run_one(tape.data(), tape.size(), &msg)) {
			failedOnce = true;
			save_failure("violation", msg);   // last failing execution == the shrunk one
			g_violation_saved = true;
			RC_FAIL(msg);
		}
	});
	return ok ? 0 : 1;
}

#endif

static int mode_replay(int argc, char** argv) {
	int rc = 0;
	for (int i = 0; i < argc; ++i) {
		std::vector<uint8_t> v;
		if (!read_file(argv[i], v)) { fprintf(stderr, "cannot read %s\n", argv[i]); return 2; }
		if (v.size() >= 6 && memcmp(v.data(), "TAPES\n", 6) == 0) {
			// several cases run one after the other in this process (state left behind by earlier cases is part of the reproduction)
			size_t at = 6, k = 0; g_hist_saved = true;
			while (at + 4 <= v.size()) {
				uint32_t len; memcpy(&len, v.data() + at, 4); at += 4; if (at + len > v.size()) break;
				std::string msg;
				if (run_one(v.data() + at, len, &msg)) { printf("REPLAY %s: VIOLATION (case %zu of the sequence) %s\n", argv[i], k, msg.c_str()); save_failure("violation", msg); rc = 1; break; }
				at += len; ++k;
			}
			if (!rc) printf("REPLAY %s: ok (%zu cases in sequence)\n", argv[i], k);
			continue;
		}
		if (v.size() >= 9 && memcmp(v.data(), "SWEEPSET\n", 9) == 0) {
			std::string all(v.begin() + 9, v.end()); size_t a = 0;
			g_filter_set.clear();
			while (a < all.size()) { size_t e = all.find('\n', a); if (e == std::string::npos) e = all.size(); if (e > a) g_filter_set.push_back(all.substr(a, e - a)); a = e + 1; }
			g_have_filter = true; g_in_sweep = true; g_hist_saved = true;
			arm();
			try { run_sweep(g_stats); }
			catch (const Violation& e) { printf("REPLAY %s: VIOLATION %s\n", argv[i], e.msg.c_str()); rc = 1; }
			catch (const std::exception& e) { printf("REPLAY %s: VIOLATION unexpected exception %s\n", argv[i], e.what()); rc = 1; }
			disarm();
			g_in_sweep = false; g_have_filter = false; g_filter_set.clear();
			if (!rc) printf("REPLAY %s: ok (%llu cases matched)\n", argv[i], (unsigned long long)g_stats.evaluations);
			continue;
		}
		if (v.size() > 6 && memcmp(v.data(), "SWEEP ", 6) == 0) {
			std::string s(v.begin() + 6, v.end());
			while (!s.empty() && (s.back() == '\n' || s.back() == '\r')) s.pop_back();
			snprintf(g_sweep_filter, sizeof g_sweep_filter, "%s", s.c_str());
			g_have_filter = true; g_in_sweep = true;
			arm();
			try { run_sweep(g_stats); }
			catch (const Violation& e) { printf("REPLAY %s: VIOLATION %s\n", argv[i], e.msg.c_str()); rc = 1; }
			catch (const std::exception& e) { printf("REPLAY %s: VIOLATION unexpected exception %s\n", argv[i], e.what()); rc = 1; }
			disarm();
			g_in_sweep = false; g_have_filter = false;
			if (!rc) printf("REPLAY %s: ok (%llu cases matched)\n", argv[i], (unsigned long long)g_stats.evaluations);
			continue;
		}
		std::string msg;
		if (run_one(v.data(), v.size(), &msg)) { printf("REPLAY %s: VIOLATION %s\n", argv[i], msg.c_str()); save_failure("violation", msg); rc = 1; }
		else printf("REPLAY %s: ok\n", argv[i]);
	}
	return rc;
}

int main(int argc, char** argv) {
	if (argc < 2) { fprintf(stderr, "usage: %s pbt|fuzz|sweep|replay|seeds ...\n", argv[0]); return 2; }
	if (const char* t = getenv("VERIF_TIER")) g_thorough = (strcmp(t, "thorough") == 0);
	if (const char* s = getenv("VERIF_SEED")) { g_seed = strtoull(s, nullptr, 10); if (!g_seed) g_seed = 1; }
	if (const char* s = getenv("VERIF_OUT")) g_outdir = s;
	if (const char* s = getenv("VERIF_CASE_TIMEOUT")) g_case_timeout = atoi(s);
	mkdir(g_outdir.c_str(), 0700);
	signal(SIGALRM, on_alarm);
	signal(SIGTERM, on_term);
	// A descriptor that some path of the library does not give back (a refused open, a refused slice) shows only after about a thousand such
	// calls in one process.  Every harness process therefore runs with a small descriptor budget (default 160; no case of any harness holds more
	// than a few dozen at once), so that a leak of one descriptor per refused call turns into real, reportable failures of later lawful calls
	// within a few hundred cases (reported through the sequence replay of the driver, DESIGN.md 7.8/7.9).
	for (int& fd : g_spare_fd) fd = open("/dev/null", O_RDONLY);
	{ struct rlimit rl; if (getrlimit(RLIMIT_NOFILE, &rl) == 0) { rlim_t want = 160; if (const char* s = getenv("VERIF_NOFILE")) want = rlim_t(atoi(s)); if (want && want < rl.rlim_cur) { rl.rlim_cur = want; setrlimit(RLIMIT_NOFILE, &rl); } } }
#ifndef VERIF_PLAIN
	__sanitizer_set_death_callback(death_cb);
#else
	(void)death_cb;
#endif
	atexit(at_exit);
	std::string mode = argv[1];
#ifndef VERIF_PLAIN
	if (mode == "pbt") {
		if (argc < 4) return 2;
		return mode_pbt(atoi(argv[2]), atoi(argv[3]));
	}
	if (mode == "fuzz") {
		// argv[2..] are libFuzzer arguments
		int fargc = argc - 1;
		char** fargv = argv + 1;
		fargv[0] = argv[0];
		return LLVMFuzzerRunDriver(&fargc, &fargv, fuzz_cb);
	}
#endif
	if (mode == "scenario") return run_scenario_main(argc - 2, argv + 2);
	if (mode == "sweep") {
		g_in_sweep = true;
		arm();
		int rc = 0;
		try { run_sweep(g_stats); }
		catch (const Violation& v) { save_failure("violation", v.msg); fprintf(stderr, "ORACLE VIOLATION (sweep %s): %s\n", g_sweep_label, v.msg.c_str()); rc = 1; }
		catch (const std::exception& e) { save_failure("violation", std::string("unexpected exception ") + e.what()); fprintf(stderr, "ORACLE VIOLATION (sweep %s): unexpected exception %s\n", g_sweep_label, e.what()); rc = 1; }
		disarm();
		return rc;
	}
	if (mode == "replay") return mode_replay(argc - 2, argv + 2);
	if (mode == "seeds") { if (argc < 3) return 2; mkdir(argv[2], 0700); write_seeds(argv[2]); return 0; }
	fprintf(stderr, "unknown mode %s\n", mode.c_str());
	return 2;
}
