// C13 — slices are confined, independent, and equivalent across stream backends.
// Model: every live stream = (source, absolute window [a,b), cursor).  After EVERY step every live stream is
// compared with its model, so an operation on one stream that moves another is seen at once.
#include "common/verif.h"
#include "ref/ref_vol.h"
#include "ref/ref_clm.h"
#include "Stream/MemoryReader.h"
#include "Stream/FileReader.h"
#include "Stream/SliceReader.h"
#include "Archive/VolFile.h"
#include "Archive/ClmFile.h"
#include <memory>
#include <sys/resource.h>

using namespace verif;
using namespace OP2Utility;
const char* const PROP_ID = "C13";

namespace {
enum NKind { NMem, NFile, NFSlice };
const char* nk_name[] = { "mem", "file", "fslice" };

struct Node {
	NKind kind;
	std::unique_ptr<Stream::BidirectionalReader> r;
	Stream::MemoryReader* mem = nullptr; Stream::FileReader* file = nullptr; Stream::FileSliceReader* fs = nullptr;
	const std::vector<uint8_t>* src; uint64_t a, b, cur; int depth; bool fromArchive = false;
	uint64_t len() const { return b - a; }
};

struct World {
	std::vector<uint8_t> S;                 // plain source (memory + file)
	uint8_t* Sheap = nullptr;               // exact-size heap copy backing memory readers
	std::string Spath;
	std::vector<uint8_t> volBytes, clmBytes;
	std::string volPath, clmPath;
	std::unique_ptr<Archive::VolFile> vol; std::unique_ptr<Archive::ClmFile> clm; bool hadVol = false, hadClm = false;
	std::vector<refvol::Member> volMembers; std::vector<refvol::Extent> volExt;
	std::vector<refclm::Track> clmTracks; std::vector<refclm::Extent> clmExt;
	std::vector<Node> nodes;
	std::string trace; bool tracing = false;
	unsigned interleaved_targets = 0; std::set<int> touched; unsigned sharedFileNodes = 0;
	~World() { nodes.clear(); vol.reset(); clm.reset(); free(Sheap); }
};

uint64_t bval(uint8_t cls, uint64_t raw, uint64_t L, uint64_t other) {
	switch (cls % 12) {
	case 0: return 0;
	case 1: return L;
	case 2: return L + 1;
	case 3: return L - other;           // end-anchored partner
	case 4: return uint64_t(1) << 63;
	case 5: return ~uint64_t(0);
	case 6: return uint64_t(0) - other; // sum wraps to 0
	case 7: return uint64_t(0) - other + (raw % 4); // sum wraps to small
	case 8: return 1;
	case 9: return L ? raw % L : 0;
	case 10: return L ? L - 1 : 0;
	default: return raw % (L + 3);
	}
}

void check_all(World& w, const char* where) {
	for (size_t i = 0; i < w.nodes.size(); ++i) {
		Node& n = w.nodes[i];
		uint64_t p = n.r->Position(), l = n.r->Length();
		V_CHECK(l == n.len(), where << ": stream#" << i << "(" << nk_name[n.kind] << ") Length()=" << l << " model=" << n.len() << " trace=" << w.trace);
		V_CHECK(p == n.cur, where << ": stream#" << i << "(" << nk_name[n.kind] << ") Position()=" << p << " model=" << n.cur << " (another stream's operation moved it?) trace=" << w.trace);
	}
}

void add_node(World& w, Node&& n) {
	w.nodes.push_back(std::move(n));
}

template <class T> Node make_node(NKind k, std::unique_ptr<T> p, const std::vector<uint8_t>* src, uint64_t a, uint64_t b, uint64_t cur, int depth) {
	Node n; n.kind = k; n.src = src; n.a = a; n.b = b; n.cur = cur; n.depth = depth;
	T* raw = p.get();
	if constexpr (std::is_same<T, Stream::MemoryReader>::value) n.mem = raw;
	else if constexpr (std::is_same<T, Stream::FileReader>::value) n.file = raw;
	else n.fs = raw;
	n.r = std::move(p);
	return n;
}

// read k bytes through op (0 Read, 1 ReadPartial, 2 Peek) and compare with the model
void do_read(World& w, size_t ti, int mode, uint64_t k) {
	Node& n = w.nodes[ti];
	uint64_t rem = n.len() - n.cur;
	bool bounded = n.kind != NFile;           // a plain FileReader only promises in-bounds behaviour
	if (!bounded && k > rem) k = rem;
	size_t expn = k <= rem ? size_t(k) : size_t(rem);
	uint8_t* buf = static_cast<uint8_t*>(malloc(expn ? expn : 1));
	struct F { uint8_t* p; ~F() { free(p); } } guard{buf};
	if (mode == 1) {
		size_t got = n.r->ReadPartial(buf, size_t(k));
		V_CHECK(got == expn, "ReadPartial(" << k << ") on stream#" << ti << " returned " << got << " expected " << expn << " trace=" << w.trace);
		V_CHECK(expn == 0 || memcmp(buf, n.src->data() + n.a + n.cur, expn) == 0, "ReadPartial bytes differ from source[a+pos..] on stream#" << ti << " trace=" << w.trace);
		n.cur += expn;
		return;
	}
	Out o = guarded([&] { if (mode == 0) n.r->Read(buf, size_t(k)); else n.r->Peek(buf, size_t(k)); });
	if (k <= rem) {
		V_CHECK(o == Out::Ok, "in-bounds read of " << k << " on stream#" << ti << " failed trace=" << w.trace);
		V_CHECK(k == 0 || memcmp(buf, n.src->data() + n.a + n.cur, size_t(k)) == 0, "read bytes differ from source[a+pos..] on stream#" << ti << "(" << nk_name[n.kind] << ") window [" << n.a << "," << n.b << ") pos " << n.cur << " trace=" << w.trace);
		if (mode == 0) n.cur += k;
	} else {
		V_CHECK(o == Out::Err, "read of " << k << " beyond the window (" << rem << " left) on stream#" << ti << " succeeded: slice not confined; trace=" << w.trace);
	}
}

void do_slice(World& w, size_t ti, bool here, uint64_t s, uint64_t nlen) {
	if (w.nodes.size() >= 14) return;
	Node& p = w.nodes[ti];
	if (p.depth >= 5) return;
	uint64_t L = p.len();
	if (here) s = p.cur;
	bool valid = s <= L && nlen <= L - s;
	Node nn; bool made = false;
	Out o = guarded([&] {
		switch (p.kind) {
		case NMem: {
			auto q = std::make_unique<Stream::MemoryReader>(here ? p.mem->Slice(nlen) : p.mem->Slice(s, nlen));
			nn = make_node(NMem, std::move(q), p.src, p.a + s, p.a + s + nlen, 0, p.depth + 1); break; }
		case NFile: {
			auto q = std::make_unique<Stream::FileSliceReader>(here ? p.file->Slice(nlen) : p.file->Slice(s, nlen));
			nn = make_node(NFSlice, std::move(q), p.src, p.a + s, p.a + s + nlen, 0, p.depth + 1); break; }
		case NFSlice: {
			auto q = std::make_unique<Stream::FileSliceReader>(here ? p.fs->Slice(nlen) : p.fs->Slice(s, nlen));
			nn = make_node(NFSlice, std::move(q), p.src, p.a + s, p.a + s + nlen, 0, p.depth + 1); break; }
		}
		made = true;
	});
	if (valid) {
		V_CHECK(o == Out::Ok && made, "contained slice (" << s << "," << nlen << ") of stream#" << ti << " len " << L << " refused; trace=" << w.trace);
		if (here) p.cur += nlen;
		nn.fromArchive = p.fromArchive;
		add_node(w, std::move(nn));
	} else {
		V_CHECK(o == Out::Err, "slice (" << s << "," << nlen << ") not contained in stream#" << ti << " of length " << L << " was created (wrap-around?); trace=" << w.trace);
	}
}

void do_copy(World& w, size_t ti) {
	if (w.nodes.size() >= 14) return;
	Node& p = w.nodes[ti];
	Node nn;
	switch (p.kind) {
	case NMem: nn = make_node(NMem, std::make_unique<Stream::MemoryReader>(*p.mem), p.src, p.a, p.b, 0, p.depth); break;
	case NFile: nn = make_node(NFile, std::make_unique<Stream::FileReader>(*p.file), p.src, p.a, p.b, 0, p.depth); break;
	case NFSlice: nn = make_node(NFSlice, std::make_unique<Stream::FileSliceReader>(*p.fs), p.src, p.a, p.b, 0, p.depth); break;
	}
	uint64_t q = nn.r->Position();
	V_CHECK(q == 0 || q == p.cur, "copy of stream#" << ti << " starts at " << q << ", neither 0 nor the original's position " << p.cur << "; trace=" << w.trace);
	nn.cur = q; nn.fromArchive = p.fromArchive;
	add_node(w, std::move(nn));
}

void archive_op(World& w, uint8_t sel, uint64_t raw) {
	bool useVol = (sel & 1) == 0;
	if ((sel >> 1) % 5 == 4) {   // the archive object goes away (or comes back): streams opened from it own their file handle and must not notice
		if (raw % 3 == 0) { if (useVol && w.vol) { w.vol.reset(); if (w.tracing) w.trace += "vol.destroy;"; } else if (!useVol && w.clm) { w.clm.reset(); if (w.tracing) w.trace += "clm.destroy;"; } }
		else { if (useVol && !w.vol && !w.volPath.empty() && w.hadVol) { w.vol = std::make_unique<Archive::VolFile>(w.volPath); if (w.tracing) w.trace += "vol.reopen;"; } else if (!useVol && !w.clm && !w.clmPath.empty() && w.hadClm) { w.clm = std::make_unique<Archive::ClmFile>(w.clmPath); if (w.tracing) w.trace += "clm.reopen;"; } }
		return;
	}
	if (useVol && !w.vol) useVol = false;
	if (!useVol && !w.clm) { if (w.vol) useVol = true; else return; }
	size_t count = useVol ? w.volMembers.size() : w.clmTracks.size();
	size_t i = count ? raw % (count + 1) : 0;   // count itself = out of range
	unsigned what = (sel >> 1) % 5;
	Archive::ArchiveFile* ar = useVol ? static_cast<Archive::ArchiveFile*>(w.vol.get()) : w.clm.get();
	if (w.tracing) w.trace += std::string(useVol ? "vol." : "clm.") + (what == 0 ? "GetName" : what == 1 ? "OpenStream" : what == 2 ? "ExtractFile" : "GetSize") + "(" + std::to_string(i) + ");";
	if (i >= count) {
		Out o = guarded([&] { if (what == 0) ar->GetName(i); else if (what == 1) ar->OpenStream(i); else if (what == 3) ar->GetSize(i); else ar->ExtractFile(i, scratch_path("c13_x.bin")); });
		V_CHECK(o == Out::Err, "archive call with index == count succeeded; trace=" << w.trace);
		return;
	}
	const std::vector<uint8_t>& payload = useVol ? w.volMembers[i].payload : w.clmTracks[i].data;
	switch (what) {
	case 0: { std::string nm = ar->GetName(i); V_CHECK(nm == (useVol ? w.volMembers[i].name : w.clmTracks[i].name), "GetName mismatch; trace=" << w.trace); break; }
	case 3: { V_CHECK(ar->GetSize(i) == (useVol ? size_t(w.volMembers[i].sizeField) : payload.size()), "GetSize mismatch; trace=" << w.trace); break; }
	case 1: {
		if (w.nodes.size() >= 14) break;
		auto s = ar->OpenStream(i);
		Node n; n.kind = NFSlice; n.fs = dynamic_cast<Stream::FileSliceReader*>(s.get());
		V_CHECK(n.fs != nullptr, "member stream is not a file slice");
		n.r = std::move(s);
		n.src = useVol ? &w.volBytes : &w.clmBytes;
		n.a = useVol ? w.volExt[i].dataOffset : w.clmExt[i].offset; n.b = n.a + payload.size(); n.cur = 0; n.depth = 1; n.fromArchive = true;
		add_node(w, std::move(n));
		++w.sharedFileNodes;
		break; }
	case 2: {
		std::string out = scratch_path("c13_x.bin");
		if (useVol && w.volMembers[i].comp != refvol::CompUncompressed) { guarded([&] { ar->ExtractFile(i, out); }); break; }   // expansion of that kind may be refused; the object stays usable
		ar->ExtractFile(i, out);
		std::vector<uint8_t> got; read_file(out, got);
		if (useVol) V_CHECK(got == payload, "ExtractFile wrote " << got.size() << " bytes, member has " << payload.size() << "; trace=" << w.trace);
		else V_CHECK(got.size() == payload.size() + 46 && std::equal(payload.begin(), payload.end(), got.begin() + 46), "CLM ExtractFile payload mismatch; trace=" << w.trace);
		break; }
	}
}

struct Rec { uint8_t op, target, c1, c2; uint64_t raw; };

void step(World& w, const Rec& r) {
	if (w.nodes.empty()) return;
	size_t ti = r.target % w.nodes.size();
	unsigned op = r.op % 13;
	Node& n = w.nodes[ti];
	uint64_t L = n.len(), rem = L - n.cur;
	if (w.tracing && op != 10) w.trace += "#" + std::to_string(ti) + ".";
	if (op != 10 && op != 9) { w.touched.insert(int(ti)); }
	switch (op) {
	case 0: { uint64_t s = bval(r.c1, r.raw, L, 0); uint64_t nl = bval(r.c2, r.raw >> 8, L, s);
		if (w.tracing) w.trace += "Slice(" + std::to_string(s) + "," + std::to_string(nl) + ");";
		do_slice(w, ti, false, s, nl); break; }
	case 1: { uint64_t nl = bval(r.c1, r.raw, rem, n.cur);
		if (w.tracing) w.trace += "Slice(" + std::to_string(nl) + ");";
		do_slice(w, ti, true, 0, nl); break; }
	case 2: if (w.tracing) w.trace += "copy;"; do_copy(w, ti); break;
	case 3: case 4: case 8: { uint64_t k = bval(r.c1, r.raw, rem, n.cur);
		int mode = op == 3 ? 0 : op == 4 ? 1 : 2;
		if (w.tracing) w.trace += std::string(mode == 0 ? "Read(" : mode == 1 ? "ReadPartial(" : "Peek(") + std::to_string(k) + ");";
		do_read(w, ti, mode, k); break; }
	case 5: { uint64_t p = bval(r.c1, r.raw, L, 0);
		if (n.kind == NFile && p > L) p = L;
		if (w.tracing) w.trace += "Seek(" + std::to_string(p) + ");";
		Out o = guarded([&] { n.r->Seek(p); });
		if (p <= L) { V_CHECK(o == Out::Ok, "Seek in range failed; trace=" << w.trace); n.cur = p; }
		else V_CHECK(o == Out::Err, "Seek(" << p << ") beyond window of length " << L << " succeeded on stream#" << ti << "; trace=" << w.trace);
		break; }
	case 6: { uint64_t d = bval(r.c1, r.raw, rem, n.cur);
		if (n.kind == NFile && d > rem) d = rem;
		if (w.tracing) w.trace += "SeekForward(" + std::to_string(d) + ");";
		Out o = guarded([&] { n.r->SeekForward(d); });
		if (d <= rem) { V_CHECK(o == Out::Ok, "SeekForward in range failed; trace=" << w.trace); n.cur += d; }
		else V_CHECK(o == Out::Err, "SeekForward(" << d << ") beyond window succeeded on stream#" << ti << "; trace=" << w.trace);
		break; }
	case 7: { uint64_t d = bval(r.c1, r.raw, n.cur, 0);
		if (w.tracing) w.trace += "SeekBackward(" + std::to_string(d) + ");";
		Out o = guarded([&] { n.r->SeekBackward(d); });
		if (d <= n.cur) { V_CHECK(o == Out::Ok, "SeekBackward in range failed; trace=" << w.trace); n.cur -= d; }
		else V_CHECK(o == Out::Err, "SeekBackward(" << d << ") before window start succeeded on stream#" << ti << "; trace=" << w.trace);
		break; }
	case 9: if (w.nodes.size() > 2) { if (w.tracing) w.trace += "#" + std::to_string(ti) + ".drop;"; w.nodes.erase(w.nodes.begin() + ti); } break;
	case 10: archive_op(w, r.c1, r.raw); break;
	case 11: if (w.tracing) w.trace += "SeekBeginning;"; n.r->SeekBeginning(); n.cur = 0; break;
	case 12: if (w.tracing) w.trace += "SeekEnd;"; n.r->SeekEnd(); n.cur = L; break;
	}
	check_all(w, "after step");
}

struct Decoded {
	std::vector<uint8_t> S; bool withVol, withClm;
	std::vector<refvol::Member> vm; std::vector<refclm::Track> ct;
	std::vector<Rec> recs;
};

Decoded decode(Tape& t) {
	Decoded d;
	size_t maxS = g_thorough ? 2000 : 200;
	size_t n = t.pick<uint32_t>({0, 1, 5, 16, 40, 100, 200});
	if (t.flag()) n = t.below(maxS + 1);
	d.S = t.bytes(n > 64 ? 64 : n);
	if (n > 64) { auto m = t.expand(n - 64); d.S.insert(d.S.end(), m.begin(), m.end()); }
	uint8_t arch = t.u8();
	d.withVol = arch & 1; d.withClm = arch & 2;
	if (d.withVol) {
		unsigned k = 1 + t.below(4);
		for (unsigned i = 0; i < k; ++i) {
			refvol::Member m; m.name = std::string(1, char('a' + i)) + "f.bin";
			m.payload = t.expand(t.pick<uint32_t>({0, 1, 3, 4, 9, 30, 64})); m.sizeField = uint32_t(m.payload.size());
			// one member in four is stored in a kind the library lists and streams but cannot expand; its index size (the expanded size) differs
			// from the stored length: the member stream is the STORED bytes, exactly
			if (t.below(4) == 0) { m.comp = t.flag() ? 0x101 : 0x102; m.sizeField = uint32_t(m.payload.size() + 1 + t.below(90)); if (t.below(3) == 0 && m.payload.size() > 2) m.sizeField = uint32_t(m.payload.size() - 2); }
			d.vm.push_back(m);
		}
	}
	if (d.withClm) {
		unsigned k = 1 + t.below(3);
		for (unsigned i = 0; i < k; ++i) { refclm::Track tr; tr.name = std::string(1, char('p' + i)) + "trk"; tr.data = t.expand(t.pick<uint32_t>({0, 2, 7, 32})); d.ct.push_back(tr); }
	}
	unsigned nrec = 1 + t.below(60);
	for (unsigned i = 0; i < nrec && !t.empty(); ++i) { Rec r; r.op = t.u8(); r.target = t.u8(); r.c1 = t.u8(); r.c2 = t.u8(); r.raw = t.u64(); d.recs.push_back(r); }
	return d;
}

void run_forest(const Decoded& d, Stats& st, bool tracing) {
	World w; w.tracing = tracing; w.nodes.reserve(20);
	w.S = d.S;
	w.Sheap = static_cast<uint8_t*>(malloc(d.S.size() ? d.S.size() : 1));
	if (!d.S.empty()) memcpy(w.Sheap, d.S.data(), d.S.size());
	w.Spath = scratch_path("c13_src.bin");
	write_file(w.Spath, d.S);
	add_node(w, make_node(NMem, std::make_unique<Stream::MemoryReader>(w.Sheap, d.S.size()), &w.S, 0, d.S.size(), 0, 0));
	add_node(w, make_node(NFile, std::make_unique<Stream::FileReader>(w.Spath), &w.S, 0, d.S.size(), 0, 0));
	if (d.withVol) {
		w.volMembers = d.vm; w.volBytes = refvol::encode(d.vm, refvol::EncodeOpts(), &w.volExt);
		w.volPath = scratch_path("c13.vol"); write_file(w.volPath, w.volBytes);
		w.vol = std::make_unique<Archive::VolFile>(w.volPath); w.hadVol = true;
		V_CHECK(w.vol->GetCount() == d.vm.size(), "reference-encoded VOL opened with " << w.vol->GetCount() << " members, expected " << d.vm.size());
	}
	if (d.withClm) {
		w.clmTracks = d.ct; refclm::WaveFormat f{1, 1, 22050, 44100, 2, 16};
		w.clmBytes = refclm::encode(f, d.ct, &w.clmExt);
		w.clmPath = scratch_path("c13.clm"); write_file(w.clmPath, w.clmBytes);
		w.clm = std::make_unique<Archive::ClmFile>(w.clmPath); w.hadClm = true;
		V_CHECK(w.clm->GetCount() == d.ct.size(), "reference-encoded CLM opened with wrong member count");
	}
	check_all(w, "initial");
	size_t maxlive = 2;
	for (auto& r : d.recs) { step(w, r); maxlive = std::max(maxlive, w.nodes.size()); }
	// closing: drain every live stream; each must deliver exactly the rest of its own window
	for (size_t i = 0; i < w.nodes.size(); ++i) {
		Node& n = w.nodes[i];
		uint64_t rem = n.len() - n.cur;
		do_read(w, i, 1, rem + (n.kind == NFile ? 0 : 5));
		check_all(w, "closing drain");
	}
	st.cls("max_live_streams:" + std::to_string(std::min<size_t>(maxlive, 8)));
	if (d.withVol) st.cls("with_vol");
	if (d.withClm) st.cls("with_clm");
	unsigned fileNodes = 0;
	for (auto& n : w.nodes) if (n.kind != NMem) ++fileNodes;
	if (fileNodes >= 3 && w.touched.size() >= 2) {
		uint64_t h = fnv1a(d.S.data(), d.S.size(), (d.withVol ? 7 : 3) + (d.withClm ? 100 : 0));
		for (auto& r : d.recs) { h = hmix(h, r.op % 13); h = hmix(h, r.target); h = hmix(h, r.c1 % 12); h = hmix(h, r.c2 % 12); h = hmix(h, r.raw % 251); }
		st.nt(h);
	}
}

// backend equivalence: the same in-bounds record sequence on five views of the same window
struct Obs { uint64_t pos, len, h; bool operator==(const Obs& o) const { return pos == o.pos && len == o.len && h == o.h; } };
std::vector<Obs> run_view(Stream::BidirectionalReader& r, const std::vector<Rec>& recs) {
	std::vector<Obs> tr;
	for (auto& rc : recs) {
		uint64_t L = r.Length(), p = r.Position(), rem = L - p, h = 0;
		switch (rc.op % 7) {
		case 0: { size_t k = rem ? rc.raw % (rem + 1) : 0; std::vector<uint8_t> b(k); r.Read(b.data(), k); h = fnv1a(b.data(), k); break; }
		case 1: { size_t k = rem ? rc.raw % (rem + 1) : 0; std::vector<uint8_t> b(k); size_t g = r.ReadPartial(b.data(), k); h = fnv1a(b.data(), g, g); break; }
		case 2: { size_t k = rem ? rc.raw % (rem + 1) : 0; std::vector<uint8_t> b(k); r.Peek(b.data(), k); h = fnv1a(b.data(), k); break; }
		case 3: r.Seek(L ? rc.raw % (L + 1) : 0); break;
		case 4: r.SeekForward(rem ? rc.raw % (rem + 1) : 0); break;
		case 5: r.SeekBackward(p ? rc.raw % (p + 1) : 0); break;
		case 6: if (rc.raw & 1) r.SeekEnd(); else r.SeekBeginning(); break;
		}
		tr.push_back({r.Position(), r.Length(), h});
	}
	return tr;
}

void run_equiv(Tape& t, Stats& st) {
	size_t n = t.below(g_thorough ? 600 : 120);
	std::vector<uint8_t> S = t.bytes(n > 48 ? 48 : n);
	if (n > 48) { auto m = t.expand(n - 48); S.insert(S.end(), m.begin(), m.end()); }
	uint64_t a = t.below(n + 1), len = t.below(n - a + 1);
	if (t.below(3) == 0) len = n - a;
	uint64_t a1 = t.below(a + 1), pre = a - a1;              // outer slice [a1, ...) containing the window
	uint64_t outerLen = pre + len + t.below(n - a - len + 1);
	std::vector<Rec> recs; unsigned k = 1 + t.below(30);
	for (unsigned i = 0; i < k; ++i) { Rec r; r.op = t.u8(); r.target = r.c1 = r.c2 = 0; r.raw = t.u64(); recs.push_back(r); }
	std::string path = scratch_path("c13_eq.bin"); write_file(path, S);
	std::string wpath = scratch_path("c13_eqw.bin"); write_file(wpath, S.data() + a, len);
	uint8_t* heap = static_cast<uint8_t*>(malloc(n ? n : 1)); if (n) memcpy(heap, S.data(), n);
	uint8_t* wheap = static_cast<uint8_t*>(malloc(len ? len : 1)); if (len) memcpy(wheap, S.data() + a, len);
	struct G { uint8_t* a; uint8_t* b; ~G() { free(a); free(b); } } g{heap, wheap};
	// model trace
	std::vector<uint8_t> W(S.begin() + a, S.begin() + a + len);
	std::vector<std::pair<const char*, std::vector<Obs>>> traces;
	{ Stream::MemoryReader m(wheap, len); traces.push_back({"memory", run_view(m, recs)}); }
	{ Stream::FileReader f(wpath); traces.push_back({"file", run_view(f, recs)}); }
	{ Stream::MemoryReader m(heap, n); auto s = m.Slice(a, len); traces.push_back({"slice-of-memory", run_view(s, recs)}); }
	{ Stream::FileReader f(path); auto s = f.Slice(a, len); traces.push_back({"slice-of-file", run_view(s, recs)}); }
	{ Stream::FileReader f(path); auto s = f.Slice(a1, outerLen).Slice(pre, len); traces.push_back({"slice-of-slice(file)", run_view(s, recs)}); }
	{ Stream::MemoryReader m(heap, n); auto s = m.Slice(a1, outerLen).Slice(pre, len); traces.push_back({"slice-of-slice(memory)", run_view(s, recs)}); }
	for (size_t i = 1; i < traces.size(); ++i)
		for (size_t j = 0; j < recs.size(); ++j)
			V_CHECK(traces[i].second[j] == traces[0].second[j], "backend " << traces[i].first << " diverges from memory at step " << j << " (op " << int(recs[j].op % 7) << "): pos " << traces[i].second[j].pos << " vs " << traces[0].second[j].pos << ", len " << traces[i].second[j].len << " vs " << traces[0].second[j].len << ", window [" << a << "," << a + len << ") of " << n);
	st.cls("equivalence_case");
	if (len >= 2 && recs.size() >= 3) { uint64_t h = fnv1a(S.data(), S.size(), a * 131 + len); for (auto& r : recs) { h = hmix(h, r.op % 7); h = hmix(h, r.raw % 509); } st.nt(h ^ 0x5555); }
}
} // namespace

void run_case(Tape& t, Stats& st) {
	if (t.below(5) == 0) { run_equiv(t, st); return; }
	Decoded d = decode(t);
	if (st.want_sample()) {
		std::string s = "{\"src_len\":" + std::to_string(d.S.size()) + ",\"vol_members\":" + std::to_string(d.vm.size()) + ",\"clm_tracks\":" + std::to_string(d.ct.size()) + ",\"ops\":[";
		for (size_t i = 0; i < d.recs.size() && i < 10; ++i) s += std::string(i ? "," : "") + "[" + std::to_string(d.recs[i].op % 13) + "," + std::to_string(d.recs[i].target) + "," + std::to_string(d.recs[i].c1 % 12) + "," + std::to_string(d.recs[i].c2 % 12) + "]";
		s += "],\"n_ops\":" + std::to_string(d.recs.size()) + "}";
		st.sample(s);
	}
	try { run_forest(d, st, false); }
	catch (const Violation&) { run_forest(d, st, true); throw; }
}

// Many streams alive at once (more than any descriptor cache or handle budget of a few hundred would hold open), each first touched by a RELATIVE
// seek; and several hundred refused slice requests in a row followed by lawful ones.  The descriptor budget of the harness process is lifted for
// the first part and restored afterwards.
void many_live_and_storm(Stats& st) {
	std::vector<uint8_t> src(3000); for (size_t i = 0; i < src.size(); ++i) src[i] = uint8_t(i * 37 + (i >> 8) * 5 + 1);
	std::string path = scratch_path("c13_many.bin"); write_file(path, src);
	struct rlimit old; getrlimit(RLIMIT_NOFILE, &old); struct rlimit wide = old; wide.rlim_cur = std::min<rlim_t>(old.rlim_max, 4096); setrlimit(RLIMIT_NOFILE, &wide);
	{
		Stream::FileReader f(path);
		std::vector<std::unique_ptr<Stream::FileSliceReader>> live; const size_t N = 700;
		for (size_t i = 0; i < N; ++i) { live.push_back(std::make_unique<Stream::FileSliceReader>(f.Slice(i, 200 + i % 7))); if (i % 3 == 0) { uint8_t b; live.back()->Read(&b, 1); V_CHECK(b == src[i], "first byte of slice " << i); } }
		// oldest first: the first operation after the long pause is a relative seek
		for (size_t i = 0; i < N; ++i) {
			auto& r = *live[i]; uint64_t pos = i % 3 == 0 ? 1 : 0;
			if (i % 2 == 0) { r.SeekForward(5); pos += 5; } else if (pos) { r.SeekBackward(1); pos -= 1; } else { r.SeekForward(0); }
			V_CHECK(r.Position() == pos, "slice " << i << " of " << N << " live ones: Position() " << r.Position() << " after a relative seek, expected " << pos);
			uint8_t b[4]; r.Read(b, 4); V_CHECK(!memcmp(b, &src[i + pos], 4), "slice " << i << " of " << N << " live ones delivers other bytes after a relative seek (position " << pos << ")"); pos += 4;
			r.SeekBackward(2); pos -= 2; V_CHECK(r.Position() == pos && r.Length() == 200 + i % 7, "slice " << i << ": position / length after a second relative seek");
		}
		// newest first, once more, with copies taken in between
		for (size_t k = 0; k < N; k += 5) { size_t i = N - 1 - k; Stream::FileSliceReader c(*live[i]); uint64_t p = c.Position(); uint8_t b; c.SeekForward(3); c.Read(&b, 1); V_CHECK(b == src[i + p + 3], "copy of slice " << i << " among " << N << " live ones"); uint64_t q = live[i]->Position(); live[i]->Read(&b, 1); V_CHECK(b == src[i + q], "slice " << i << " after its copy was used"); }
		V_CHECK(f.Position() == 0, "the parent of " << N << " slices was moved to " << f.Position());
	}
	setrlimit(RLIMIT_NOFILE, &old);
	{
		Stream::FileReader f(path); Stream::FileSliceReader sl = f.Slice(100, 500);
		auto lawful = [&](const char* when) { std::string what; Out o = guarded([&] { auto a = f.Slice(10, 20); uint8_t b; a.Read(&b, 1); V_CHECK(b == src[10], "lawful slice of the file " << when); auto c = sl.Slice(5, 50); c.Read(&b, 1); V_CHECK(b == src[105], "lawful slice of a slice " << when); Stream::FileReader g(path); g.Read(&b, 1); V_CHECK(b == src[0], "lawful open " << when); }, &what); V_CHECK(o == Out::Ok, "a lawful slice / open failed " << when << ": " << what); };
		for (int i = 0; i < 400; ++i) { V_CHECK(guarded([&] { f.Slice(2990, 20); }) == Out::Err, "slice beyond the file accepted"); V_CHECK(guarded([&] { sl.Slice(490, 20); }) == Out::Err, "slice beyond its parent slice accepted"); V_CHECK(guarded([&] { sl.Slice(~uint64_t(0) - 3, 8); }) == Out::Err, "wrapping slice accepted"); }
		lawful("after 1200 refused slice requests");
		for (int i = 0; i < 400; ++i) { sl.Seek(495); V_CHECK(guarded([&] { sl.Slice(20); }) == Out::Err, "Slice(n) beyond the parent accepted"); V_CHECK(sl.Position() == 495, "refused Slice(n) moved the parent"); }
		lawful("after 400 refused Slice(n) requests");
		for (int i = 0; i < 400; ++i) guarded([&] { Stream::FileReader g(scratch_path("c13_missing.bin")); });
		lawful("after 400 refused opens");
	}
	remove(path.c_str()); st.cls("many_live_streams_and_refusal_storm"); st.nt(0x13A11);
}

void run_sweep(Stats& st) {
	if (sw("many_live_and_storm")) many_live_and_storm(st);
	// all (s,n) pairs from the boundary table on sources of length 0,1,5, for every parent kind and both slice forms,
	// followed by a drain of parent and child.
	for (size_t len : {size_t(0), size_t(1), size_t(5)}) {
		Decoded d; d.withVol = d.withClm = false;
		for (size_t i = 0; i < len; ++i) d.S.push_back(uint8_t(0xA0 + i));
		for (unsigned parent = 0; parent < 3; ++parent)      // 0 mem, 1 file, 2 fslice (made by a first full slice of the file)
			for (unsigned pre = 0; pre < 2; ++pre)           // optionally move the parent first
				for (unsigned c1 = 0; c1 < 12; ++c1)
					for (unsigned c2 = 0; c2 < 12; ++c2)
						for (unsigned form = 0; form < 2; ++form) {
							if (!sw("slicepairs", len, parent * 2 + pre, c1 * 12 + c2, form)) continue;
							d.recs.clear();
							uint8_t target = parent == 0 ? 0 : 1;
							if (parent == 2) { d.recs.push_back({0, 1, uint8_t(len ? 8 : 0), 3, 0}); target = 2; }   // Slice(1,L-1) of the file (offset must accumulate)
							if (pre) d.recs.push_back({6, target, 8, 0, 0});                        // SeekForward(1) (refused on empty)
							d.recs.push_back({uint8_t(form), target, uint8_t(c1), uint8_t(c2), 0x0301});
							d.recs.push_back({3, uint8_t(target + 1), 8, 0, 0});                      // Read(1) on the new slice (or parent)
							try { run_forest(d, st, false); } catch (const Violation&) { run_forest(d, st, true); throw; }
						}
	}
	st.exhaustive = true;
}

void write_seeds(const std::string&) {}
