// C18 — serialised bytes and parsed values depend only on the logical input.
// The san-flavour binary is the driver: it writes the scenario tape to a file and runs it in two child processes built
// and poisoned differently (varZ: automatic variables pre-filled with 0, heap blocks with 0x00; varP: automatic variables
// 0xAA.., heap blocks 0xD7, other stack garbage, other listing order / path spelling), plus once in-process under ASan.
// All three emissions (output bytes + canonical dumps of parsed structures) must be identical.
#include "map_common.h"
#include "prt_common.h"
#include "vol_common.h"
#include "ref/ref_clm.h"
#include "ref/ref_lzh.h"
#include "Archive/VolFile.h"
#include "Archive/ClmFile.h"
#include "Bitmap/BitmapFile.h"
#include "Sprite/TilesetLoader.h"
#include "Stream/FileReader.h"
#include <spawn.h>
#include <sys/wait.h>
#include <typeinfo>

extern char** environ;
using namespace verif;
using namespace OP2Utility;
const char* const PROP_ID = "C18";

namespace {
struct Emit {
	std::string s; bool headerFromLocal = false, container = false;
	void blob(const char* label, const std::vector<uint8_t>& b) { s += label; s += ":" + std::to_string(b.size()) + ":" + hex(b.data(), b.size(), b.size()) + "\n"; }
	void text(const char* label, const std::string& v) { s += label; s += "=" + v + "\n"; }
	void num(const char* label, long long v) { s += label; s += "=" + std::to_string(v) + "\n"; }
};
std::vector<uint8_t> slurp(const std::string& p) { std::vector<uint8_t> v; read_file(p, v); return v; }
std::vector<uint8_t> bytes_of(Stream::DynamicMemoryWriter& w) { std::vector<uint8_t> out(w.Length()); auto r = w.GetReader(); r.Read(out.data(), out.size()); return out; }

void dump_map(const Map& m, Emit& e) {
	e.num("map.tag", m.GetVersionTag()); e.num("map.saved", m.IsSavedGame()); e.num("map.w", m.WidthInTiles()); e.num("map.h", m.HeightInTiles()); e.num("map.tiles", (long long)m.TileCount());
	std::vector<uint8_t> tw(m.tiles.size() * 4); if (!tw.empty()) memcpy(tw.data(), m.tiles.data(), tw.size()); e.blob("map.tilewords", tw);
	e.num("clip.x1", m.clipRect.x1); e.num("clip.y1", m.clipRect.y1); e.num("clip.x2", m.clipRect.x2); e.num("clip.y2", m.clipRect.y2);
	for (auto& s : m.tilesetSources) { e.text("src.name", hex(s.tilesetFilename.data(), s.tilesetFilename.size(), 64)); e.num("src.tiles", s.numTiles); }
	std::vector<uint8_t> mp(m.tileMappings.size() * 8); if (!mp.empty()) memcpy(mp.data(), m.tileMappings.data(), mp.size()); e.blob("map.mappings", mp);
	std::vector<uint8_t> tt(m.terrainTypes.size() * 264); if (!tt.empty()) memcpy(tt.data(), m.terrainTypes.data(), tt.size()); e.blob("map.terrains", tt);
	for (auto& g : m.tileGroups) { e.num("grp.w", g.tileWidth); e.num("grp.h", g.tileHeight); std::vector<uint8_t> gi(g.mappingIndices.size() * 4); if (!gi.empty()) memcpy(gi.data(), g.mappingIndices.data(), gi.size()); e.blob("grp.idx", gi); e.text("grp.name", hex(g.name.data(), g.name.size(), 64)); }
}
void dump_bitmap(const BitmapFile& b, Emit& e) {
	std::vector<uint8_t> h1(14), h2(40); memcpy(h1.data(), &b.bmpHeader, 14); memcpy(h2.data(), &b.imageHeader, 40); e.blob("bmp.fileheader", h1); e.blob("bmp.imageheader", h2);
	std::vector<uint8_t> p(b.palette.size() * 4); if (!p.empty()) memcpy(p.data(), b.palette.data(), p.size()); e.blob("bmp.palette", p); e.blob("bmp.pixels", b.pixels);
}
void dump_art(const ArtFile& a, Emit& e) {
	for (auto& p : a.palettes) { std::vector<uint8_t> b(1024); memcpy(b.data(), p.data(), 1024); e.blob("art.palette", b); }
	std::vector<uint8_t> im(a.imageMetas.size() * 20); if (!im.empty()) memcpy(im.data(), a.imageMetas.data(), im.size()); e.blob("art.images", im);
	e.num("art.unknownCount", a.unknownAnimationCount);
	for (auto& an : a.animations) {
		e.num("an.unknown", an.unknown); e.num("an.x1", an.selectionRect.x1); e.num("an.y1", an.selectionRect.y1); e.num("an.x2", an.selectionRect.x2); e.num("an.y2", an.selectionRect.y2); e.num("an.dx", an.pixelDisplacement.x); e.num("an.dy", an.pixelDisplacement.y); e.num("an.unknown2", an.unknown2);
		for (auto& f : an.frames) { uint8_t m1, m2; memcpy(&m1, &f.layerMetadata, 1); memcpy(&m2, &f.unknownBitfield, 1); e.num("fr.meta", m1); e.num("fr.bits", m2); e.num("fr.o1", f.optional1); e.num("fr.o2", f.optional2); e.num("fr.o3", f.optional3); e.num("fr.o4", f.optional4);
			std::vector<uint8_t> ly(f.layers.size() * 8); if (!ly.empty()) memcpy(ly.data(), f.layers.data(), ly.size()); e.blob("fr.layers", ly); }
		std::vector<uint8_t> uc(an.unknownContainer.size() * 16); if (!uc.empty()) memcpy(uc.data(), an.unknownContainer.data(), uc.size()); e.blob("an.container", uc);
	}
}

// ---- scenarios (decoded identically in every process; `variant` only changes what must not matter) ----
void sc_vol(Tape& t, int variant, Emit& e) {
	volgen::root();
	unsigned n = unsigned(t.below(6));
	if (t.below(8) == 0) n = 70 + unsigned(t.below(40));   // a name table and an index beyond 1 KiB (names of at least 12 characters): whatever staging a writer uses for them
	std::vector<std::pair<std::string, std::vector<uint8_t>>> fs;
	for (unsigned i = 0; i < n; ++i) {
		std::string nm = volgen::gen_name(t, n > 6 ? 20 : 12); if (n > 6 && nm.size() < 12) nm += std::string(12 - nm.size(), char('k' + i % 5));
		// half of the later names extend an earlier one (possibly in another letter case): prefix-related names are where a sort
		// that is not a strict weak order, or not total on them, lets the listing order leak into the archive
		if (i && t.flag()) { nm = volgen::case_variant(fs[t.below(fs.size())].first, t.u8()) + t.pick<std::string>({".bak", "x", "_", ".txt", "0", " ", "\xFF", "\xFFq", "\xFE", "\x80z"}); }
		else if (t.below(8) == 0 && !nm.empty()) nm[t.below(nm.size())] = char(t.pick<uint8_t>({0xFF, 0xFF, 0xFE, 0x80, 0xE9}));   // bytes above 0x7F, 0xFF (-1 as a signed char) in particular, at the place where two names first differ
		// one later name in six is the TWIN of an earlier one: the same text except for one byte of a pair that differs only in the ASCII case bit
		// ([ {, ] }, ^ ~, \ |, @ `): different names, which a comparison folding too much ties - and then the listing order shows in the archive
		if (i && t.below(6) == 0) { std::string b0 = fs[t.below(fs.size())].first; size_t at = b0.find_first_of("[]^\\@{}~|`"); if (at == std::string::npos && b0.size() < 24) { b0.insert(b0.begin() + long(t.below(b0.size() + 1)), t.pick<char>({'[', ']', '^', '\\', '@'})); at = b0.find_first_of("[]^\\@"); }
			if (at != std::string::npos) { nm = b0; nm[at] = char(nm[at] ^ 0x20); bool had = false; for (auto& f : fs) if (f.first == b0) had = true; if (!had) fs.push_back({b0, t.expand(t.below(50))}); } }
		{ bool clash; unsigned k = 0; do { clash = false; for (auto& f : fs) if (refvol::ieq(f.first, nm)) { clash = true; nm += std::to_string(i + k++); } } while (clash); }
		fs.push_back({nm, t.expand(t.below(n > 6 ? 12 : 200))});
	}
	volgen::mkdirs("%in/"); volgen::mkdirs("%o/");
	std::vector<std::string> paths;
	for (auto& f : fs) { write_file("%in/" + f.first, f.second); paths.push_back(variant ? (paths.size() % 3 == 0 ? "./%in/" : paths.size() % 3 == 1 ? "%in//" : "./%in/./") + f.first : "%in/" + f.first); }   // other spellings of the same files
	if (variant) std::reverse(paths.begin(), paths.end());
	std::string out = variant ? "./%o/v.vol" : "%o/v.vol"; remove(out.c_str());
	Archive::VolFile::CreateArchive(out, paths);
	e.blob("vol.bytes", slurp(out)); e.headerFromLocal = true; e.container = n > 0;
	Archive::VolFile v(out);
	for (size_t i = 0; i < v.GetCount(); ++i) { e.text("vol.name", v.GetName(i)); e.num("vol.size", v.GetSize(i)); e.num("vol.comp", int(v.GetCompressionCode(i))); }
	if (v.GetCount()) { v.ExtractFile(0, "%o/x.bin"); e.blob("vol.extract0", slurp("%o/x.bin")); }
	for (auto& f : fs) remove(("%in/" + f.first).c_str()); remove(out.c_str());
	// parse side on a foreign archive: unused trailing slots with arbitrary stale fields, extra name padding, an index length that covers pad bytes -
	// whatever the listing reports for the valid members must come from the file, not from memory
	{ std::vector<refvol::Member> ms; unsigned k = unsigned(t.below(4));
	  for (unsigned i = 0; i < k; ++i) { refvol::Member m; m.name = std::string(1, char('a' + i)) + "_f" + std::to_string(i); m.payload = t.expand(t.below(40)); m.sizeField = uint32_t(m.payload.size() + t.below(3)); m.comp = t.pick<uint16_t>({0x100, 0x100, 0x103, 0x101}); ms.push_back(m); }
	  refvol::EncodeOpts eo; eo.unusedSlots = unsigned(t.below(4)); eo.unusedFill = t.u32(); eo.namePadWords = unsigned(t.below(3)); eo.indexLenExtra = t.below(3) == 0 ? 1 + unsigned(t.below(13)) : 0;
	  std::string fp = "%o/foreign.vol"; write_file(fp, refvol::encode(ms, eo));
	  try { Archive::VolFile fv(fp); e.num("foreign.count", (long long)fv.GetCount());
	    for (size_t i = 0; i < fv.GetCount(); ++i) { e.text("foreign.name", fv.GetName(i)); e.num("foreign.size", fv.GetSize(i)); e.num("foreign.comp", int(fv.GetCompressionCode(i))); auto sr = fv.OpenStream(i); std::vector<uint8_t> g(size_t(sr->Length())); sr->Read(g.data(), g.size()); e.blob("foreign.stream", g); }
	  } catch (const std::exception&) { e.text("foreign", "refused"); }
	  remove(fp.c_str()); }
}
// rewrites the 'fmt ' chunk of a WAV to a shorter body (the 14-byte WAVEFORMAT of non-PCM files, or less): a reader that fetches a fixed 16 or 18
// bytes then takes the rest from whatever follows in the FILE - never from its own memory
void shorten_fmt(std::vector<uint8_t>& v, unsigned newLen) {
	size_t at = 12;
	while (at + 8 <= v.size()) { uint32_t len = refvol::get32(v, at + 4); if (memcmp(&v[at], "fmt ", 4) == 0) { if (newLen >= len) return; v.erase(v.begin() + at + 8 + newLen, v.begin() + at + 8 + len); for (int j = 0; j < 4; ++j) v[at + 4 + j] = uint8_t(newLen >> (8 * j)); uint32_t riff = uint32_t(v.size() - 8); for (int j = 0; j < 4; ++j) v[4 + j] = uint8_t(riff >> (8 * j)); return; } at += 8 + len + (len & 1); }
}
void sc_clm(Tape& t, int variant, Emit& e) {
	volgen::root();
	refclm::WaveFormat f{t.u16(), t.u16(), t.u32(), t.u32(), t.u16(), t.u16()};
	unsigned n = unsigned(t.below(5));
	unsigned shortFmt = t.below(6) == 0 ? 1 + t.pick<unsigned>({14, 14, 14, 12, 8, 2, 0}) : 0;   // 0 = ordinary files; else 1 + the body length of every file's 'fmt ' chunk
	std::vector<std::string> names, paths;
	volgen::mkdirs("%in/"); volgen::mkdirs("%o/");
	for (unsigned i = 0; i < n; ++i) {
		std::string nm = std::string(1, char('a' + i)) + std::string(t.below(7), char('A' + i));
		if (i && t.flag() && names.back().size() < 8) { nm = volgen::case_variant(names.back(), t.u8()) + char('a' + i); }   // extends the previous name (prefix-related, other case)
		refclm::WavSpec w; w.fmt = f; w.fmt18 = t.flag(); w.data = t.expand(t.below(120));
		if (t.flag()) { refclm::Chunk c; memcpy(c.tag, "LIST", 5); c.body = t.bytes(2 * t.below(5)); w.afterData.push_back(c); }
		if (t.flag()) { refclm::Chunk c; memcpy(c.tag, "fact", 5); c.body = {1, 2, 3, 4}; w.beforeFmt.push_back(c); }
		std::vector<uint8_t> wavBytes = refclm::build_wav(w);
		if (shortFmt) shorten_fmt(wavBytes, shortFmt - 1);
		write_file("%in/" + nm + ".wav", wavBytes); names.push_back(nm); paths.push_back(variant ? (i % 2 ? "%in//" : "./%in/") + nm + ".wav" : "%in/" + nm + ".wav");
	}
	if (variant) std::reverse(paths.begin(), paths.end());
	std::string out = "%o/c.clm"; remove(out.c_str());
	if (shortFmt) {   // whether such a set is packed or refused is the library's business; the answer and the bytes must not depend on memory contents
		try { Archive::ClmFile::CreateArchive(out, paths); } catch (const std::exception&) { e.text("clm.short_fmt", "refused"); for (auto& nm : names) remove(("%in/" + nm + ".wav").c_str()); remove(out.c_str()); return; }
	} else
	Archive::ClmFile::CreateArchive(out, paths);
	e.blob("clm.bytes", slurp(out)); e.headerFromLocal = true; e.container = n > 0;
	Archive::ClmFile c(out);
	for (size_t i = 0; i < c.GetCount(); ++i) { e.text("clm.name", c.GetName(i)); e.num("clm.size", c.GetSize(i)); c.ExtractFile(i, "%o/x.wav"); e.blob("clm.extracted_wav", slurp("%o/x.wav")); }
	for (auto& nm : names) remove(("%in/" + nm + ".wav").c_str()); remove(out.c_str());
}
void sc_map(Tape& t, int, Emit& e) {
	unsigned mode = unsigned(t.below(4));
	if (mode == 0) { // a default-constructed map is a legal object to serialise
		Map m; if (t.flag()) m.SetVersionTag(t.u32());
		Stream::DynamicMemoryWriter w; m.Write(w); e.blob("map.default_written", bytes_of(w)); dump_map(m, e); e.headerFromLocal = true; return;
	}
	refmap::LMap lm = mapgen::gen_lmap(t, 2048);
	std::vector<uint8_t> in = refmap::encode(lm);
	if (mode == 3) { refmap::SaveExtra x; x.fill = t.u8(); x.objectCount2 = uint32_t(t.below(3)); lm.groups.clear(); in = refmap::encode_saved(lm, x); Stream::MemoryReader r(in.data(), in.size()); Map m = Map::ReadSavedGame(r); dump_map(m, e); e.container = true; return; }
	Stream::MemoryReader r(in.data(), in.size());
	Map m = Map::ReadMap(r);
	dump_map(m, e);
	if (mode == 2) { m.TrimTilesetSources(); if (m.WidthInTiles() >= 32 && m.HeightInTiles()) { m.SetCellType(static_cast<CellType>(t.below(32)), t.below(m.WidthInTiles()), t.below(m.HeightInTiles())); m.SetLavaPossible(t.flag(), t.below(m.WidthInTiles()), t.below(m.HeightInTiles())); } }
	Stream::DynamicMemoryWriter w; m.Write(w); e.blob("map.written", bytes_of(w)); e.headerFromLocal = true; e.container = !lm.tiles.empty();
}
void sc_bmp(Tape& t, int, Emit& e) {
	unsigned depth = t.pick<unsigned>({1, 4, 8}); uint32_t w = uint32_t(t.below(40)); int32_t h = int32_t(t.below(21)) - 10; unsigned mode = unsigned(t.below(4));
	BitmapFile b;
	if (mode == 0) b = BitmapFile::CreateIndexed(uint16_t(depth), w, h);
	else if (mode == 1) { std::vector<Color> pal(t.below((size_t(1) << depth) + 1)); for (auto& c : pal) c = Color{t.u8(), t.u8(), t.u8(), t.u8()}; b = BitmapFile::CreateIndexed(uint16_t(depth), w, h, pal); }
	else { refgfx::LBmp L; L.depth = depth; L.width = int32_t(w); L.height = h; L.usedColors = mode == 3 ? 1 + uint32_t(t.below(1u << depth)) : 0; size_t en = L.usedColors ? L.usedColors : (size_t(1) << depth); for (size_t i = 0; i < en; ++i) L.palette.push_back({t.u8(), uint8_t(i), 3, 4}); L.pixels = t.expand(size_t(refgfx::pitch(w, depth) * uint64_t(h < 0 ? -h : h))); auto v = refgfx::encode_bmp(L); Stream::MemoryReader r(v.data(), v.size()); b = BitmapFile::ReadIndexed(r); }
	dump_bitmap(b, e);
	Stream::DynamicMemoryWriter wr; b.WriteIndexed(wr); e.blob("bmp.written", bytes_of(wr));
	BitmapFile c = b; c.InvertScanLines(); dump_bitmap(c, e); e.headerFromLocal = true; e.container = !b.pixels.empty();
}
void sc_tileset(Tape& t, int, Emit& e) {
	uint32_t k = uint32_t(t.below(4)); std::vector<Color> pal(256); for (auto& c : pal) c = Color{t.u8(), t.u8(), t.u8(), t.u8()};
	std::vector<uint8_t> px = t.expand(size_t(k) * 32 * 32);
	BitmapFile b = BitmapFile::CreateIndexed(8, 32, t.flag() ? int32_t(32 * k) : -int32_t(32 * k), pal, px);
	Stream::DynamicMemoryWriter w; Tileset::WriteCustomTileset(w, b); auto cb = bytes_of(w); e.blob("tileset.custom", cb);
	Stream::MemoryReader r(cb.data(), cb.size()); BitmapFile back = Tileset::ReadTileset(r); dump_bitmap(back, e); e.headerFromLocal = true; e.container = k > 0;
	// the same kind of picture arriving as a standard bitmap with a PARTIAL colour table: whatever the custom writer puts into the unused
	// palette entries must not come from memory
	{ unsigned used = 1 + unsigned(t.below(255)); refgfx::LBmp L; L.depth = 8; L.width = 32; L.height = t.flag() ? 32 : -32; L.usedColors = used;
	  for (unsigned i = 0; i < used; ++i) L.palette.push_back({t.u8(), uint8_t(i), 7, 0}); L.pixels.assign(32 * 32, uint8_t(used - 1));
	  auto v = refgfx::encode_bmp(L); Stream::MemoryReader r2(v.data(), v.size()); BitmapFile part = Tileset::ReadTileset(r2); dump_bitmap(part, e);
	  Stream::DynamicMemoryWriter w2; Tileset::WriteCustomTileset(w2, part); e.blob("tileset.custom_from_partial_palette", bytes_of(w2)); }
}
void sc_prt(Tape& t, int, Emit& e) {
	refgfx::LPrt p = prtgen::gen_lprt(t);
	std::vector<uint8_t> in = refgfx::encode_prt(p);
	Stream::MemoryReader r(in.data(), in.size()); ArtFile a = ArtFile::Read(r);
	dump_art(a, e);
	Stream::DynamicMemoryWriter w; a.Write(w); e.blob("art.written", bytes_of(w)); e.headerFromLocal = true; e.container = !p.anims.empty() || !p.images.empty();
	if (t.flag()) { ArtFile empty{}; Stream::DynamicMemoryWriter w2; empty.Write(w2); e.blob("art.empty_written", bytes_of(w2)); }
}
// LZH member of a reference-encoded volume whose first matches reach back before the start of the output, i.e. into the part of the
// decoder's window nothing has written yet (it must read as the format's space fill, whatever the memory held before)
void sc_lzh(Tape& t, int variant, Emit& e) {
	volgen::root(); volgen::mkdirs("%o/");
	std::vector<reflzh::Token> toks; unsigned produced = 0;
	unsigned n = 1 + unsigned(t.below(40));
	for (unsigned i = 0; i < n; ++i) {
		if (t.below(3) == 0) { toks.push_back({false, t.u8(), 0, 0}); ++produced; continue; }
		unsigned len = 3 + unsigned(t.below(58));
		unsigned dist;
		switch (t.below(4)) { case 0: dist = produced + 1 + unsigned(t.below(60)); break;            // window indices 4036..4095 at the start
			case 1: dist = produced + 1 + unsigned(t.below(4096 - std::min(produced, 4000u))); break;     // anywhere before the start
			case 2: dist = 4096; break;
			default: dist = 1 + unsigned(t.below(std::max(1u, produced))); break; }
		if (dist > 4096) dist = 4096; if (dist < 1) dist = 1;
		toks.push_back({true, 0, len, dist}); produced += len;
	}
	std::vector<uint8_t> plain; std::vector<uint8_t> packed = reflzh::encode(toks, plain);
	refvol::Member m; m.name = "p.bin"; m.payload = packed; m.comp = refvol::CompLZH; m.sizeField = uint32_t(reflzh::decode(packed).out.size());
	std::string vp = "%o/lzh.vol", xp = "%o/lzh.out"; write_file(vp, refvol::encode({m})); remove(xp.c_str());
	{ Archive::VolFile v(vp); v.ExtractFile(0, xp); e.blob("lzh.extracted", slurp(xp)); }
	// two LZH members of different packed size through ONE archive object, extracted in an order that differs between the runs:
	// each member's bytes depend on the member alone, not on what was extracted before it
	if (packed.size() >= 2) {
		refvol::Member m2; m2.name = "q.bin"; m2.payload.assign(packed.begin(), packed.begin() + packed.size() / 2); m2.comp = refvol::CompLZH; m2.sizeField = uint32_t(reflzh::decode(m2.payload).out.size());
		write_file(vp, refvol::encode({m, m2}));
		Archive::VolFile v2(vp); std::vector<uint8_t> out[2];
		for (int k = 0; k < 2; ++k) { int idx = variant ? 1 - k : k; remove(xp.c_str()); v2.ExtractFile(size_t(idx), xp); out[idx] = slurp(xp); }
		e.blob("lzh.member0", out[0]); e.blob("lzh.member1", out[1]);
	}
	{ Archive::HuffLZ dec(Archive::BitStreamReader(packed.data(), packed.size())); std::vector<uint8_t> out; char buf[97]; for (;;) { size_t k = dec.GetData(buf, sizeof buf); out.insert(out.end(), buf, buf + k); if (k < sizeof buf || out.size() > 400000) break; } e.blob("lzh.getdata", out); }
	e.headerFromLocal = true; e.container = produced > 0;
	remove(vp.c_str()); remove(xp.c_str());
}
void scenario(Tape& t, int variant, Emit& e) {
	unsigned kind = unsigned(t.below(7));
	e.num("kind", kind);
	try {
		switch (kind) { case 0: sc_vol(t, variant, e); break; case 1: sc_clm(t, variant, e); break; case 2: sc_map(t, variant, e); break; case 3: sc_bmp(t, variant, e); break; case 4: sc_tileset(t, variant, e); break; case 6: sc_lzh(t, variant, e); break; default: sc_prt(t, variant, e); break; }
	} catch (const Violation&) { throw; }
	catch (const std::exception&) { e.text("outcome", "std::exception"); }
}

__attribute__((noinline)) void scribble_stack(uint8_t v) { volatile uint8_t buf[180000]; for (size_t i = 0; i < sizeof buf; ++i) buf[i] = uint8_t(v + i * 7); }

int run_child(const std::string& bin, const std::string& tape, const std::string& out, int variant, int heapFill, const std::string& scratch) {
	std::vector<std::string> envs;
	for (char** e = environ; *e; ++e) { std::string s = *e; if (s.compare(0, 16, "VERIF_HEAP_FILL=") == 0 || s.compare(0, 15, "MALLOC_PERTURB_=") == 0 || s.compare(0, 14, "VERIF_SCRATCH=") == 0 || s.compare(0, 10, "VERIF_OUT=") == 0) continue; envs.push_back(s); }
	envs.push_back("VERIF_HEAP_FILL=" + std::to_string(heapFill)); envs.push_back("MALLOC_PERTURB_=" + std::to_string(heapFill ^ 0x33)); envs.push_back("VERIF_SCRATCH=" + scratch); envs.push_back("VERIF_OUT=" + scratch);
	std::vector<char*> envp; for (auto& s : envs) envp.push_back(const_cast<char*>(s.c_str())); envp.push_back(nullptr);
	std::string v = std::to_string(variant);
	char* argv[] = {const_cast<char*>(bin.c_str()), const_cast<char*>("scenario"), const_cast<char*>(tape.c_str()), const_cast<char*>(out.c_str()), const_cast<char*>(v.c_str()), nullptr};
	pid_t pid; if (posix_spawn(&pid, bin.c_str(), nullptr, nullptr, argv, envp.data()) != 0) return -1;
	int status = 0; waitpid(pid, &status, 0);
	return WIFEXITED(status) ? WEXITSTATUS(status) : 128 + WTERMSIG(status);
}
} // namespace

// child role: c18 scenario <tape> <out> <variant>
int run_scenario_main(int argc, char** argv) {
	if (argc < 3) return 2;
	std::vector<uint8_t> tape; if (!read_file(argv[0], tape)) return 2;
	int variant = atoi(argv[2]);
	scribble_stack(uint8_t(variant ? 0xE3 : 0x00));
	Tape t(tape); Emit e;
	try { scenario(t, variant, e); } catch (const Violation& v) { e.text("violation", v.msg); }
	write_file(argv[1], e.s.data(), e.s.size());
	return 0;
}

void run_case(Tape& t, Stats& st) {
	const char* bz = getenv("VERIF_BIN_varZ"); const char* bp = getenv("VERIF_BIN_varP");
	V_CHECK(bz && bp, "harness: child binaries not configured (VERIF_BIN_varZ / VERIF_BIN_varP)");
	std::string tapeFile = scratch_path("c18.tape"), o0 = scratch_path("c18.z.out"), o1 = scratch_path("c18.p.out");
	write_file(tapeFile, t.data(), t.size());
	std::string s0 = scratch_path("cz"), s1 = scratch_path("cp-other-dir");
	remove(o0.c_str()); remove(o1.c_str());
	int r0 = run_child(bz, tapeFile, o0, 0, 0x00, s0);
	int r1 = run_child(bp, tapeFile, o1, 1, 0xD7, s1);
	V_CHECK(r0 == 0 && r1 == 0, "scenario child ended abnormally (zero-poisoned status " << r0 << ", pattern-poisoned status " << r1 << ")");
	std::vector<uint8_t> a, b; read_file(o0, a); read_file(o1, b);
	// third opinion: in-process under ASan (variant 0)
	Tape t2(t.data(), t.size()); Emit e; std::string cwd = scratch_path("inproc"); (void)cwd;
	scenario(t2, 0, e);
	auto first_line_diff = [](const std::string& x, const std::string& y) { size_t i = 0, line = 0, ls = 0; while (i < x.size() && i < y.size() && x[i] == y[i]) { if (x[i] == '\n') { ++line; ls = i + 1; } ++i; } size_t le = x.find('\n', ls); std::string lab = x.substr(ls, std::min<size_t>(x.find_first_of(":=", ls) - ls, 40)); (void)le; return "line " + std::to_string(line) + " (" + lab + "), byte " + std::to_string(i - ls) + " of that line"; };
	std::string sa(a.begin(), a.end()), sb(b.begin(), b.end());
	V_CHECK(sa == sb, "emission differs between the zero-poisoned and the pattern-poisoned process at " << first_line_diff(sa, sb) << " - output or parsed value depends on uninitialised memory, addresses, listing order or path spelling");
	V_CHECK(sa == e.s, "emission of the in-process (ASan) run differs from the child processes at " << first_line_diff(sa, e.s));
	unsigned kind = 0; { Tape t3(t.data(), t.size()); kind = unsigned(t3.below(7)); }
	st.cls("scenario_kind:" + std::to_string(kind));
	if (e.s.find("outcome=std::exception") != std::string::npos) st.cls("scenario_threw_consistently");
	if (e.headerFromLocal && e.container) st.nt(fnv1a(e.s.data(), e.s.size()));
	if (st.want_sample()) st.sample("{\"kind\":" + std::to_string(kind) + ",\"emission_bytes\":" + std::to_string(e.s.size()) + ",\"emission_head\":" + jstr(e.s.substr(0, 120)) + "}");
}

void run_sweep(Stats& st) {
	// directed: every scenario kind with a handful of fixed tapes (incl. the default-constructed map)
	for (unsigned kind = 0; kind < 7; ++kind) for (unsigned v = 0; v < 12; ++v) {
		if (!sw("kind", kind, v)) continue;
		std::vector<uint8_t> tp(300); for (size_t i = 0; i < tp.size(); ++i) tp[i] = uint8_t(i * (31 + 2 * v) + kind * 13 + v);
		tp[0] = uint8_t(kind); if (kind == 2) tp[1] = uint8_t(v % 4);
		Tape t(tp); run_case(t, st);
	}
}

void write_seeds(const std::string&) {}
