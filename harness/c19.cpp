// C19 — ordering, path-equality and bit helpers obey the laws their callers assume.
#include "common/verif.h"
#include "ref/ref_vol.h"
#include "StringUtility.h"
#include "XFile.h"
#include "BitTwiddle.h"
#include "Archive/ArchiveFile.h"
#include <algorithm>

using namespace verif;
using namespace OP2Utility;
const char* const PROP_ID = "C19";

namespace {
bool lt(const std::string& a, const std::string& b) { return StringUtility::IsEqualCaseInsensitive(a, b); }
bool eq(const std::string& a, const std::string& b) { return StringUtility::IsEqual(a, b); }
// reference: ASCII case-fold equality (C locale)
bool ref_eq(const std::string& a, const std::string& b) {
	if (a.size() != b.size()) return false;
	for (size_t i = 0; i < a.size(); ++i) if (refvol::lower((unsigned char)a[i]) != refvol::lower((unsigned char)b[i])) return false;
	return true;
}
std::string show(const std::string& s) { return jstr(s); }

void order_pair(const std::string& a, const std::string& b, Stats& st) {
	bool ab = lt(a, b), ba = lt(b, a);
	V_CHECK(!(ab && ba), "order not asymmetric: " << show(a) << " < " << show(b) << " and " << show(b) << " < " << show(a));
	bool incomparable = !ab && !ba;
	bool e = eq(a, b), e2 = eq(b, a), re = ref_eq(a, b);
	V_CHECK(e == e2, "IsEqual not symmetric on " << show(a) << "," << show(b));
	V_CHECK(e == re, "IsEqual(" << show(a) << "," << show(b) << ")=" << e << " but ASCII case-fold equality is " << re);
	V_CHECK(incomparable == e, "incomparability (" << incomparable << ") does not coincide with case-insensitive equality (" << e << ") for " << show(a) << "," << show(b));
	// path equality contains case-insensitive string equality and is symmetric
	bool pe = XFile::PathsAreEqual(a, b), pe2 = XFile::PathsAreEqual(b, a);
	V_CHECK(pe == pe2, "PathsAreEqual not symmetric on " << show(a) << "," << show(b));
	if (e) V_CHECK(pe, "PathsAreEqual(" << show(a) << "," << show(b) << ") false although the strings are equal ignoring case");
	if (e && a != b) st.nt(fnv1a(a.data(), a.size(), fnv1a(b.data(), b.size())));
	else if (a.size() != b.size() && (a.compare(0, std::min(a.size(), b.size()), b, 0, std::min(a.size(), b.size())) == 0)) st.nt(fnv1a(a.data(), a.size(), fnv1a(b.data(), b.size()) ^ 1));
}

bool has_nul_c(const std::string& p) { return p.find('\0') != std::string::npos; }
// the relation the archive writers actually sort their INPUT PATHS with, and the name extraction / duplicate detection that follow the sort
struct ArchiveProbe : Archive::ArchiveFile {
	static bool before(const std::string& a, const std::string& b) { return ComparePathFilenames(a, b); }
	static std::vector<std::string> names(const std::vector<std::string>& p) { return GetNamesFromPaths(p); }
	static void no_duplicates(const std::vector<std::string>& n) { VerifySortedContainerHasNoDuplicateNames(n); }
};
bool pathy(const std::string& p) { return !has_nul_c(p) && !p.empty() && p.back() != '/' && p.compare(0, 2, "//") != 0; }

// on paths: a strict weak order whose incomparability is case-insensitive equality of the NAMES the archive will carry
void member_order_pair(const std::string& a, const std::string& b, Stats& st) {
	if (!pathy(a) || !pathy(b)) return;
	bool ab = ArchiveProbe::before(a, b), ba = ArchiveProbe::before(b, a);
	V_CHECK(!(ab && ba), "member order not asymmetric on paths " << show(a) << "," << show(b));
	auto nm = ArchiveProbe::names({a, b});
	V_CHECK(nm.size() == 2, "GetNamesFromPaths returned " << nm.size() << " names for 2 paths");
	bool same = eq(nm[0], nm[1]);
	V_CHECK((!ab && !ba) == same, "member order: paths " << show(a) << "," << show(b) << " are " << ((!ab && !ba) ? "incomparable" : "ordered") << " but their member names " << show(nm[0]) << "," << show(nm[1]) << " are " << (same ? "equal" : "different") << " ignoring case");
	V_CHECK(ab == lt(nm[0], nm[1]), "member order on paths " << show(a) << "," << show(b) << " disagrees with the order of their member names " << show(nm[0]) << "," << show(nm[1]));
	st.cls(same ? "member_order:equal_names" : "member_order:distinct_names");
}
void member_order_triple(const std::string& a, const std::string& b, const std::string& c) {
	if (!pathy(a) || !pathy(b) || !pathy(c)) return;
	bool ab = ArchiveProbe::before(a, b), bc = ArchiveProbe::before(b, c), ac = ArchiveProbe::before(a, c);
	if (ab && bc) V_CHECK(ac, "member order not transitive on paths " << show(a) << "," << show(b) << "," << show(c));
	bool iab = !ab && !ArchiveProbe::before(b, a), ibc = !bc && !ArchiveProbe::before(c, b), iac = !ac && !ArchiveProbe::before(c, a);
	if (iab && ibc) V_CHECK(iac, "member order: incomparability not transitive on paths " << show(a) << "," << show(b) << "," << show(c));
}
// sort paths as the writers do, extract names, run the adjacent-duplicate detection: it throws exactly when two names are equal ignoring case
void member_pipeline(std::vector<std::string> paths, Tape& t, Stats& st) {
	std::vector<std::string> ok; for (auto& p : paths) if (pathy(p)) ok.push_back(p);
	for (size_t i = ok.size(); i > 1; --i) std::swap(ok[i - 1], ok[t.below(i)]);
	std::sort(ok.begin(), ok.end(), ArchiveProbe::before);
	auto nm = ArchiveProbe::names(ok);
	bool dup = false; for (size_t i = 0; i < nm.size(); ++i) for (size_t j = i + 1; j < nm.size(); ++j) if (ref_eq(nm[i], nm[j])) dup = true;
	Out o = guarded([&] { ArchiveProbe::no_duplicates(nm); });
	V_CHECK((o == Out::Err) == dup, "duplicate detection after sorting " << ok.size() << " paths " << (o == Out::Err ? "reports" : "misses") << " a duplicate; names equal ignoring case " << (dup ? "exist" : "do not exist"));
	st.cls(dup ? "member_pipeline:duplicates" : "member_pipeline:distinct");
}

void order_triple(const std::string& a, const std::string& b, const std::string& c) {
	bool ab = lt(a, b), bc = lt(b, c), ac = lt(a, c);
	if (ab && bc) V_CHECK(ac, "order not transitive: " << show(a) << " < " << show(b) << " < " << show(c) << " but not " << show(a) << " < " << show(c));
	bool iab = !ab && !lt(b, a), ibc = !bc && !lt(c, b), iac = !ac && !lt(c, a);
	if (iab && ibc) V_CHECK(iac, "incomparability not transitive on " << show(a) << "," << show(b) << "," << show(c));
	bool pab = XFile::PathsAreEqual(a, b), pbc = XFile::PathsAreEqual(b, c);
	if (pab && pbc) V_CHECK(XFile::PathsAreEqual(a, c), "PathsAreEqual not transitive on " << show(a) << "," << show(b) << "," << show(c));
}

bool is_relative(const std::string& p) { return !p.empty() && p[0] != '/'; }
bool has_nul(const std::string& p) { return p.find('\0') != std::string::npos; }

void single_laws(const std::string& p, Stats& st) {
	V_CHECK(!lt(p, p), "order not irreflexive on " << show(p));
	V_CHECK(eq(p, p), "IsEqual not reflexive on " << show(p));
	V_CHECK(XFile::PathsAreEqual(p, p), "PathsAreEqual not reflexive on " << show(p));
	if (has_nul(p)) return;
	if (is_relative(p)) {
		bool plain = p.find('/') == std::string::npos;
		st.cls(plain ? "dot_slash_law:plain_name" : "dot_slash_law:directory_qualified");
		V_CHECK(XFile::PathsAreEqual(p, "./" + p), "path equality does not ignore a leading './': " << show(p) << " vs " << show("./" + p));
		V_CHECK(XFile::PathsAreEqual("./" + p, p), "path equality does not ignore a leading './' (swapped): " << show("./" + p) << " vs " << show(p));
		std::string up = p; for (auto& c : up) if (c >= 'a' && c <= 'z') c = char(c - 32);
		V_CHECK(XFile::PathsAreEqual("./" + up, p), "path equality not blind to case plus './': " << show("./" + up) << " vs " << show(p));
	}
	// split and re-join: paths with a file-name component (do not end in '/', no implementation-defined '//' root)
	if (!p.empty() && p.back() != '/' && p.compare(0, 2, "//") != 0) {
		std::string dir = XFile::GetDirectory(p), fn = XFile::GetFilename(p);
		std::string joined;
		Out o = guarded([&] { joined = XFile::Append(dir, fn); });
		V_CHECK(o == Out::Ok, "re-joining GetDirectory/GetFilename of " << show(p) << " threw (dir " << show(dir) << ", name " << show(fn) << ")");
		V_CHECK(XFile::PathsAreEqual(joined, p), "split + re-join changes the path: " << show(p) << " -> dir " << show(dir) << " + name " << show(fn) << " = " << show(joined));
		st.cls(p[0] == '/' ? "rejoin:absolute" : "rejoin:relative");
	}
}

void join_law(const std::string& d, const std::string& n, Stats& st) {
	// relative directory d (may be empty), plain file name n
	if (n.empty() || n.find('/') != std::string::npos || has_nul(n) || has_nul(d)) return;
	if (!d.empty() && d[0] == '/') return;
	std::string j = XFile::Append(d, n);
	V_CHECK(XFile::GetFilename(j) == n, "GetFilename(Append(" << show(d) << "," << show(n) << ")) = " << show(XFile::GetFilename(j)) << " != " << show(n));
	st.cls("join_law");
}

void ext_law(const std::string& n, const std::string& e, uint32_t caseMask, bool dotNew, bool dotQuery, Stats& st) {
	// n: file name with at least one non-dot character and no '/'; e: non-empty alphanumeric extension
	if (n.empty() || n.find('/') != std::string::npos || has_nul(n) || n.find_first_not_of('.') == std::string::npos) return;
	if (e.empty()) return;
	for (char c : e) if (!((c >= 'a' && c <= 'z') || (c >= 'A' && c <= 'Z') || (c >= '0' && c <= '9'))) return;
	std::string changed = XFile::ChangeFileExtension(n, (dotNew ? "." : "") + e);
	std::string q = e;
	for (size_t i = 0; i < q.size(); ++i) if ((caseMask >> (i % 32)) & 1) { char& c = q[i]; if (c >= 'a' && c <= 'z') c = char(c - 32); else if (c >= 'A' && c <= 'Z') c = char(c + 32); }
	V_CHECK(XFile::ExtensionMatches(changed, (dotQuery ? "." : "") + q), "ExtensionMatches(" << show(changed) << "," << show((dotQuery ? "." : "") + q) << ") false after ChangeFileExtension(" << show(n) << "," << show(e) << ")");
	st.cls("ext_law");
}

void sort_law(std::vector<std::string> names, Stats& st) {
	std::vector<std::string> orig = names;
	std::sort(names.begin(), names.end(), lt);
	for (size_t i = 1; i < names.size(); ++i) V_CHECK(!lt(names[i], names[i - 1]), "sorted output out of order at " << i << ": " << show(names[i - 1]) << "," << show(names[i]));
	std::vector<std::string> a = orig, b = names; std::sort(a.begin(), a.end()); std::sort(b.begin(), b.end());
	V_CHECK(a == b, "sort result is not a permutation of the input");
	// equal-ignoring-case names adjacent => the adjacent-duplicate scan is complete
	bool dupPair = false, dupAdj = false;
	for (size_t i = 0; i < names.size(); ++i) for (size_t j = i + 1; j < names.size(); ++j) if (ref_eq(names[i], names[j])) {
		dupPair = true;
		for (size_t k = i; k < j; ++k) V_CHECK(ref_eq(names[k], names[k + 1]), "names equal ignoring case are not adjacent after sorting: " << show(names[i]) << " .. " << show(names[j]));
	}
	for (size_t i = 1; i < names.size(); ++i) if (eq(names[i - 1], names[i])) dupAdj = true;
	V_CHECK(dupPair == dupAdj, "adjacent-duplicate scan " << (dupAdj ? "reports" : "misses") << " a duplicate pair");
	st.cls(dupPair ? "sort:with_duplicates" : "sort:distinct");
	if (dupPair && names.size() >= 3) { uint64_t h = 5; for (auto& s : orig) h = fnv1a(s.data(), s.size(), h); st.nt(h); }
}

const char between[] = "_^[]`\\@-.,+=#~!(){} ";
std::string gen_string(Tape& t, size_t maxlen) {
	size_t n = t.below(maxlen + 1);
	std::string s;
	for (size_t i = 0; i < n; ++i) {
		switch (t.below(8)) {
		case 0: s.push_back(char('a' + t.below(26))); break;
		case 1: s.push_back(char('A' + t.below(26))); break;
		case 2: s.push_back(char('0' + t.below(10))); break;
		case 3: s.push_back(between[t.below(sizeof between - 1)]); break;
		case 4: s.push_back(char(0x80 + t.below(0x80))); break;
		case 5: s.push_back(t.flag() ? '/' : '.'); break;
		case 6: s.push_back(char(1 + t.below(255))); break;
		default: s.push_back(char('a' + t.below(3))); break;
		}
	}
	return s;
}
std::string case_variant(const std::string& s, uint64_t mask) {
	std::string r = s;
	for (size_t i = 0; i < r.size(); ++i) if ((mask >> (i % 64)) & 1) { char& c = r[i]; if (c >= 'a' && c <= 'z') c = char(c - 32); else if (c >= 'A' && c <= 'Z') c = char(c + 32); }
	return r;
}

void bits_value(uint32_t v) {
	bool p = IsPowerOf2(v);
	bool ref = __builtin_popcount(v) == 1;
	V_CHECK(p == ref, "IsPowerOf2(" << v << ")=" << p << " but popcount is " << __builtin_popcount(v));
}
} // namespace

void run_case(Tape& t, Stats& st) {
	unsigned mode = unsigned(t.below(6));
	switch (mode) {
	case 0: case 1: { // related strings: pairs / triples with case variants, prefixes, one-char punctuation substitutions
		std::string a = gen_string(t, 40);
		std::string b = t.flag() ? case_variant(a, t.u64()) : gen_string(t, 40);
		if (t.below(4) == 0 && !b.empty()) b.pop_back();
		if (t.below(4) == 0 && !b.empty()) b[t.below(b.size())] = between[t.below(sizeof between - 1)];
		std::string c = t.flag() ? case_variant(b, t.u64()) : gen_string(t, 12);
		order_pair(a, b, st); order_pair(b, c, st); order_pair(a, c, st);
		order_triple(a, b, c); order_triple(c, a, b); order_triple(b, c, a);
		{ // the same three as final components of paths in generated directories (the relation the writers sort with looks at the component only)
		  std::string d1 = t.pick<std::string>({"", "d/", "./", "D/e/", "x\\y/", "a.b/"}), d2 = t.pick<std::string>({"", "d/", "e/f/", "./d/", "zz/"});
		  member_order_pair(d1 + a, d2 + b, st); member_order_pair(d2 + b, d1 + c, st); member_order_pair(d1 + a, d1 + c, st);
		  member_order_triple(d1 + a, d2 + b, d1 + c); member_order_triple(d2 + c, d1 + a, d2 + b);
		  if (t.below(4) == 0) member_pipeline({d1 + a, d2 + b, d1 + c, d2 + "tail", d1 + "Head"}, t, st); }
		single_laws(a, st); single_laws(b, st);
		if (st.want_sample()) st.sample("{\"a\":" + jstr(a) + ",\"b\":" + jstr(b) + ",\"c\":" + jstr(c) + "}");
		break; }
	case 2: { // name lists for the sort laws
		std::vector<std::string> names; unsigned n = unsigned(t.below(14)); if (t.below(6) == 0) n = 17 + unsigned(t.below(110));   // beyond the insertion-sort range of std::sort
		for (unsigned i = 0; i < n; ++i) { if (!names.empty() && t.below(3) == 0) names.push_back(case_variant(names[t.below(names.size())], t.u64())); else names.push_back(gen_string(t, 10)); }
		sort_law(names, st);
		if (st.want_sample()) { std::string s = "{\"sort\":["; for (size_t i = 0; i < names.size(); ++i) s += (i ? "," : "") + jstr(names[i]); st.sample(s + "]}"); }
		break; }
	case 3: { std::string d = gen_string(t, 20), n = gen_string(t, 12); join_law(d, n, st); single_laws(d, st); break; }
	case 4: { std::string n = gen_string(t, 14); std::string e; size_t k = 1 + t.below(5); for (size_t i = 0; i < k; ++i) e.push_back(t.flag() ? char('a' + t.below(26)) : t.flag() ? char('A' + t.below(26)) : char('0' + t.below(10)));
		ext_law(n, e, t.u32(), t.flag(), t.flag(), st); st.nt(fnv1a(n.data(), n.size(), fnv1a(e.data(), e.size()))); break; }
	default: { // path-shaped strings
		std::string p; unsigned comps = 1 + unsigned(t.below(4));
		if (t.below(5) == 0) p = "/";
		for (unsigned i = 0; i < comps; ++i) { if (i) p += t.below(6) == 0 ? "//" : "/"; std::string c = gen_string(t, 6); for (auto& ch : c) if (ch == '/' || ch == 0) ch = 'x'; if (c.empty()) c = t.flag() ? "." : "d"; p += c; }
		if (t.below(6) == 0) p += "/";
		single_laws(p, st);
		{ // redundant spellings of p: a separator doubled or followed by "./" at tape-chosen places, optional leading "./" - transitivity across them
			auto respell = [&](const std::string& x) { std::string r; if (t.below(3) == 0 && !x.empty() && x[0] != '/') r = "./"; for (char ch : x) { r.push_back(ch); if (ch == '/') { unsigned k = unsigned(t.below(4)); if (k == 1) r += "/"; else if (k == 2) r += "./"; } } return case_variant(r, t.u8()); };
			std::string x = respell(p), y = respell(p), z = respell(p);
			order_triple(x, y, z); order_triple(y, z, x); order_triple(z, x, y); order_triple(p, x, y);
		}
		std::string q = case_variant(p, t.u64());
		order_pair(p, q, st);
		V_CHECK(XFile::PathsAreEqual(p, q), "path equality not case-blind: " << show(p) << " vs " << show(q));
		if (p.find('/') != std::string::npos) st.nt(fnv1a(p.data(), p.size()) ^ 0x77);
		if (st.want_sample()) st.sample("{\"path\":" + jstr(p) + "}");
		break; }
	}
}

void run_sweep(Stats& st) {
	const char alpha[] = {'a', 'A', 'b', 'Z', 'z', '0', '_', '.', '/'};
	std::vector<std::string> s3{""}, s2{""};
	for (char a : alpha) { s3.push_back(std::string(1, a)); s2.push_back(std::string(1, a)); }
	for (char a : alpha) for (char b : alpha) { std::string s{a, b}; s3.push_back(s); s2.push_back(s); }
	for (char a : alpha) for (char b : alpha) for (char c : alpha) s3.push_back(std::string{a, b, c});
	// all strings: single laws; all ordered pairs
	for (size_t i = 0; i < s3.size(); ++i) {
		if (!sw("strings_row", i)) continue;
		single_laws(s3[i], st);
		for (size_t j = i; j < s3.size(); ++j) order_pair(s3[i], s3[j], st);
		st.evaluations += s3.size() - i;
	}
	// all triples of strings of length <= 2
	for (size_t i = 0; i < s2.size(); ++i) {
		if (!sw("triples_row", i)) continue;
		for (size_t j = 0; j < s2.size(); ++j) for (size_t k = 0; k < s2.size(); ++k) order_triple(s2[i], s2[j], s2[k]);
		st.evaluations += s2.size() * s2.size();
	}
	// path equality is an equivalence on ALL swept strings and on redundant spellings of a few paths: full relation matrix, then
	// for every a~b and b~c require a~c (no knowledge of which spellings ought to be equal is needed)
	{
		std::vector<std::string> ps = s3;
		for (const char* j1 : {"/", "//", "/./"}) for (const char* j2 : {"/", "//", "/./"}) for (const char* lead : {"", "./"}) for (const char* trail : {"", "/", "/.", "//"}) for (int up = 0; up < 2; ++up) {
			std::string q = std::string(lead) + (up ? "A" : "a") + j1 + "b" + j2 + (up ? "C" : "c") + trail; ps.push_back(q);
		}
		for (const char* q : {"a/", "a//", "a/.", "a", "./a", "./a/", "a/./", ".//a", "A/.", "/a", "//a", "/a/", "/./a", "/a/."}) ps.push_back(q);
		size_t n = ps.size(); std::vector<std::vector<uint8_t>> rel(n, std::vector<uint8_t>(n, 0));
		if (sw("path_relation_laws")) {   // one labelled case: the matrix is always computed in full, so a replay sees the same relation
			for (size_t i = 0; i < n; ++i) for (size_t j = 0; j < n; ++j) rel[i][j] = XFile::PathsAreEqual(ps[i], ps[j]);
			st.evaluations += n * n;
			for (size_t i = 0; i < n; ++i) {
				V_CHECK(rel[i][i], "PathsAreEqual not reflexive on " << show(ps[i]));
				for (size_t j = 0; j < n; ++j) {
					V_CHECK(rel[i][j] == rel[j][i], "PathsAreEqual not symmetric on " << show(ps[i]) << "," << show(ps[j]));
					if (!rel[i][j]) continue;
					for (size_t k = 0; k < n; ++k) if (rel[j][k]) V_CHECK(rel[i][k], "PathsAreEqual not transitive: " << show(ps[i]) << " ~ " << show(ps[j]) << " ~ " << show(ps[k]) << " but not " << show(ps[i]) << " ~ " << show(ps[k]));
				}
			}
			st.cls("path_relation_matrix_strings", n);
		}
	}
	// join / extension laws over the swept strings
	for (size_t i = 0; i < s2.size(); ++i) { if (!sw("join_row", i)) continue; for (size_t j = 0; j < s3.size(); ++j) join_law(s2[i], s3[j], st); }
	const char* exts[] = {"a", "A", "b0", "Zz", "txt", "VOL", "cLm"};
	for (size_t i = 0; i < s3.size(); ++i) { if (!sw("ext_row", i)) continue; for (auto e : exts) for (uint32_t m = 0; m < 8; ++m) for (int d = 0; d < 4; ++d) ext_law(s3[i], e, m, d & 1, d & 2, st); }
	// directed path cases (root-level files, nested directories, repeated './')
	for (const char* p : {"/a", "/a.b", "/x/y", "a/b", "./a", "./a/b", "././a", "d0/x.vol", "D0/X.VOL", "a//b", ".//a", "a/./b", "a/..", "..", ".", "a.", ".a", "a/.b", "/a/b/c.d"}) { if (!sw("directed", fnv1a(p, strlen(p)))) continue; single_laws(p, st); }
	// bits: all 32 powers; quick = values with <=3 bits set and their neighbours + 2^24 pseudo-random; thorough = all 2^32
	for (uint32_t k = 0; k < 32; ++k) { if (!sw("log2", k)) continue; V_CHECK(Log2OfPowerOf2(uint32_t(1) << k) == k, "Log2OfPowerOf2(1<<" << k << ") = " << Log2OfPowerOf2(uint32_t(1) << k)); V_CHECK(IsPowerOf2(uint32_t(1) << k), "IsPowerOf2(1<<" << k << ") false"); }
	if (g_thorough) {
		for (uint64_t blk = 0; blk < 4096; ++blk) {
			if (!sw("bits_block", blk)) continue;
			for (uint64_t v = blk << 20; v < ((blk + 1) << 20); ++v) bits_value(uint32_t(v));
			st.evaluations += (1u << 20) - 1;
		}
		st.cls("bits:all_2^32_values");
	} else {
		if (sw("bits_sparse")) {
			uint64_t cnt = 0;
			for (int a = 0; a < 32; ++a) for (int b = a; b < 32; ++b) for (int c = b; c < 32; ++c) {
				uint32_t v = (1u << a) | (1u << b) | (1u << c);
				for (int d = -1; d <= 1; ++d) { bits_value(v + uint32_t(d)); bits_value(~(v + uint32_t(d))); cnt += 2; }
			}
			bits_value(0); bits_value(0xFFFFFFFFu);
			st.evaluations += cnt;
		}
		if (sw("bits_random")) {
			uint64_t s = 0x2545F4914F6CDD1DULL;
			for (uint32_t i = 0; i < (1u << 24); ++i) { s ^= s << 13; s ^= s >> 7; s ^= s << 17; bits_value(uint32_t(s >> 11)); }
			st.evaluations += 1u << 24;
		}
	}
	st.exhaustive = true;
}

void write_seeds(const std::string&) {}
