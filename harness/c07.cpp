// C07 — map and saved-game readers are safe and self-consistent on arbitrary bytes.
#include "map_common.h"
#include "Stream/MemoryReader.h"
#include "Stream/FileReader.h"

using namespace verif;
using namespace OP2Utility;
using refmap::LMap;
const char* const PROP_ID = "C07";

namespace {
const uint32_t bnd[] = {0, 1, 5, 10, 11, 30, 31, 32, 33, 63, 64, 255, 0x10000, 0x7FFFFFFF, 0x80000000u, 0xFFFFFFFFu, 8, 9, 0x100F, 0x1010, 16, 20};

struct Res { bool ok = false; Map map; std::string what; };

Res read_bytes(const std::vector<uint8_t>& b, bool saved, bool viaFile) {
	Res r;
	try {
		if (viaFile) { std::string p = scratch_path(saved ? "c07.op2" : "c07.map"); write_file(p, b); r.map = saved ? Map::ReadSavedGame(p) : Map::ReadMap(p); }
		else {
			uint8_t* heap = static_cast<uint8_t*>(malloc(b.size() ? b.size() : 1));
			struct F { uint8_t* p; ~F() { free(p); } } g{heap};
			if (!b.empty()) memcpy(heap, b.data(), b.size());
			Stream::MemoryReader rd(heap, b.size());
			r.map = saved ? Map::ReadSavedGame(rd) : Map::ReadMap(rd);
		}
		r.ok = true;
	} catch (const Violation&) { throw; }
	catch (const std::exception& e) { r.what = e.what(); }
	return r;
}

// an accepted input must describe a consistent map: width = 2^lg of the input, tiles = width x height in 64 bits
void check_consistent(const Res& r, const std::vector<uint8_t>& b, bool saved, const char* ctx) {
	if (!r.ok) return;
	size_t base = saved ? refmap::SaveHeaderSkip : 0;
	V_CHECK(b.size() >= base + 20, ctx << ": input shorter than a header was accepted");
	uint32_t tag = refvol::get32(b, base), lg = refvol::get32(b, base + 8), h = refvol::get32(b, base + 12);
	V_CHECK(tag >= 0x1010, ctx << ": accepted with version tag " << tag);
	V_CHECK(lg < 32, ctx << ": accepted with log2 width " << lg << " (width not representable)");
	uint64_t w = uint64_t(1) << lg;
	V_CHECK(r.map.WidthInTiles() == w, ctx << ": WidthInTiles " << r.map.WidthInTiles() << " != 2^" << lg);
	V_CHECK((r.map.WidthInTiles() & (r.map.WidthInTiles() - 1)) == 0 && r.map.WidthInTiles() != 0, ctx << ": width not a power of two");
	V_CHECK(r.map.HeightInTiles() == h, ctx << ": HeightInTiles " << r.map.HeightInTiles() << " != " << h);
	uint64_t n = w * uint64_t(h);
	V_CHECK(uint64_t(r.map.tiles.size()) == n && uint64_t(r.map.TileCount()) == n, ctx << ": accepted map has " << r.map.tiles.size() << " tiles for width " << w << " x height " << h << " = " << n);
}

void arbitrary_case(const std::vector<uint8_t>& b, bool saved, bool viaFile, Stats& st, const char* origin) {
	Res r = read_bytes(b, saved, viaFile);
	check_consistent(r, b, saved, origin);
	st.cls(std::string(origin) + (r.ok ? ":accepted" : ":rejected"));
	size_t base = saved ? refmap::SaveHeaderSkip : 0;
	bool pastHeader = b.size() >= base + 20 && refvol::get32(b, base) >= 0x1010;
	if ((r.ok && !r.map.tiles.empty()) || (!r.ok && pastHeader)) st.nt(fnv1a(b.data(), b.size(), saved));
}

// bounds the work of one case (a count, not a clock): maps with hundreds of groups have thousands of field-adjacent cuts, each a parse of up
// to a megabyte; keep an evenly spaced subset, always with the first 200 and the last 40
void thin(std::vector<size_t>& cuts, size_t limit) {
	if (cuts.size() <= limit) return;
	std::vector<size_t> k; size_t body = cuts.size() - 240, want = limit - 240;
	for (size_t i = 0; i < cuts.size(); ++i) if (i < 200 || i + 40 >= cuts.size() || ((i - 200) * want / body != (i - 199) * want / body)) k.push_back(cuts[i]);
	cuts.swap(k);
}

// a valid map: accepted, fields equal; every proper prefix of the consumed part rejected
void valid_case(const LMap& m, bool viaFile, Stats& st, bool allPrefixes, unsigned prefixStride) {
	refmap::Layout L; std::vector<uint8_t> in = refmap::encode(m, &L);
	Res r = read_bytes(in, false, viaFile);
	V_CHECK(r.ok, "valid map rejected: " << r.what);
	check_consistent(r, in, false, "valid map");
	mapgen::compare(r.map, m, "valid map");
	std::vector<size_t> cuts;
	if (allPrefixes) for (size_t n = 0; n < L.end; ++n) cuts.push_back(n);
	else { for (size_t n = 0; n < L.end; n += prefixStride) cuts.push_back(n); for (size_t f : L.fields) for (int d = -8; d <= 8; ++d) if (int64_t(f) + d >= 0 && f + d < L.end) cuts.push_back(f + d); if (L.end) cuts.push_back(L.end - 1); }
	thin(cuts, allPrefixes ? size_t(-1) : 700);
	for (size_t n : cuts) {
		std::vector<uint8_t> p(in.begin(), in.begin() + n);
		Res q = read_bytes(p, false, false);
		V_CHECK(!q.ok, "prefix of " << n << " bytes of a valid map (" << L.end << " bytes consumed) was returned as a smaller success");
		++st.evaluations;
		if (n + 24 >= L.end || n < 40 || n % 11 == 0) {   // the file-name overload as well (a file reader's seeks do not fail past the end by themselves)
			Res qf = read_bytes(p, false, true);
			V_CHECK(!qf.ok, "prefix of " << n << " bytes of a valid map (" << L.end << " bytes consumed) was returned as a smaller success by ReadMap(filename)");
			++st.evaluations;
		}
	}
	st.cls("valid_map_with_prefixes");
}

void saved_equivalence(const LMap& m0, const refmap::SaveExtra& x, bool viaFile, Stats& st, unsigned prefixMode) {
	LMap m = m0; m.groups.clear(); m.trailing = m0.trailing;
	refmap::Layout L; size_t consumed = 0;
	std::vector<uint8_t> sv = refmap::encode_saved(m, x, &L, &consumed);
	Res s = read_bytes(sv, true, viaFile);
	bool shouldFail = x.sizeOfUnit != 120 && x.unitCount != 0;
	if (shouldFail) { V_CHECK(!s.ok, "saved game with unit size " << x.sizeOfUnit << " and " << x.unitCount << " units accepted"); st.cls("saved:bad_unit_size_rejected"); return; }
	V_CHECK(s.ok, "valid saved game rejected: " << s.what);
	check_consistent(s, sv, true, "saved game");
	LMap asMap = m; asMap.trailing.clear();
	std::vector<uint8_t> mapBytes = refmap::encode(asMap);
	Res r = read_bytes(mapBytes, false, false);
	V_CHECK(r.ok, "map file embedding the same map portion rejected: " << r.what);
	// same dimensions, tiles, clip rectangle, sources, mappings, terrain types
	V_CHECK(s.map.WidthInTiles() == r.map.WidthInTiles() && s.map.HeightInTiles() == r.map.HeightInTiles(), "saved game and map disagree on dimensions");
	V_CHECK(s.map.tiles.size() == r.map.tiles.size() && (s.map.tiles.empty() || memcmp(s.map.tiles.data(), r.map.tiles.data(), 4 * s.map.tiles.size()) == 0), "saved game and map disagree on tiles");
	V_CHECK(s.map.clipRect == r.map.clipRect, "saved game and map disagree on the clip rectangle");
	V_CHECK(s.map.tilesetSources == r.map.tilesetSources, "saved game and map disagree on tileset sources");
	V_CHECK(s.map.tileMappings.size() == r.map.tileMappings.size() && (s.map.tileMappings.empty() || memcmp(s.map.tileMappings.data(), r.map.tileMappings.data(), 8 * s.map.tileMappings.size()) == 0), "saved game and map disagree on tile mappings");
	V_CHECK(s.map.terrainTypes.size() == r.map.terrainTypes.size() && (s.map.terrainTypes.empty() || memcmp(s.map.terrainTypes.data(), r.map.terrainTypes.data(), 264 * s.map.terrainTypes.size()) == 0), "saved game and map disagree on terrain types");
	LMap cmp = m; cmp.trailing.clear(); mapgen::compare(s.map, cmp, "saved game vs logical map");
	// prefixes: 0 none, 1 sampled (stride 97 + around fields), 2 all
	if (prefixMode) {
		std::vector<size_t> cuts;
		if (prefixMode == 2) for (size_t n = 0; n < consumed; ++n) cuts.push_back(n);
		else { for (size_t n = 0; n < consumed; n += 97) cuts.push_back(n); for (size_t f : L.fields) for (int d = -8; d <= 8; ++d) if (f + d < consumed) cuts.push_back(f + d); cuts.push_back(consumed - 1); cuts.push_back(refmap::SaveHeaderSkip); cuts.push_back(refmap::SaveHeaderSkip - 1); }
		thin(cuts, prefixMode == 2 ? size_t(-1) : 700);
		uint8_t* heap = static_cast<uint8_t*>(malloc(sv.size()));
		struct F { uint8_t* p; ~F() { free(p); } } g{heap};
		for (size_t n : cuts) {
			// exact-size copy per prefix so that an over-read is visible
			uint8_t* ph = static_cast<uint8_t*>(malloc(n ? n : 1)); if (n) memcpy(ph, sv.data(), n);
			struct F2 { uint8_t* p; ~F2() { free(p); } } g2{ph};
			bool ok = false;
			try { Stream::MemoryReader rd(ph, n); Map q = Map::ReadSavedGame(rd); ok = true; } catch (const std::exception&) {}
			V_CHECK(!ok, "prefix of " << n << " bytes of a valid saved game (" << consumed << " consumed) was returned as a success");
			++st.evaluations;
			if (n + 16 >= consumed || (n >= refmap::SaveHeaderSkip - 2 && n <= refmap::SaveHeaderSkip + 24) || n % 9973 == 0) {
				std::vector<uint8_t> pv(sv.begin(), sv.begin() + n); Res qf = read_bytes(pv, true, true);
				V_CHECK(!qf.ok, "prefix of " << n << " bytes of a valid saved game (" << consumed << " consumed) was returned as a success by ReadSavedGame(filename)");
				++st.evaluations;
			}
		}
	}
	st.cls("saved:equivalent_to_map");
	if (!m.tiles.empty()) st.nt(fnv1a(sv.data() + refmap::SaveHeaderSkip, std::min<size_t>(4096, sv.size() - refmap::SaveHeaderSkip), x.objectCount1 * 31 + x.objectCount2));
}

LMap small_seed(unsigned which) {
	LMap m; m.versionTag = 0x1011;
	switch (which % 4) {
	case 0: m.lgWidth = 0; m.height = 0; break;
	case 1: m.lgWidth = 5; m.height = 2; break;
	case 2: m.lgWidth = 1; m.height = 3; m.sources = {{"well0001", 9}, {"", 0}}; m.mappings = {{1, 2, 3, 4}}; { std::array<uint8_t, 264> a{}; a[0] = 7; m.terrains = {a}; } { refmap::Group g; g.w = 1; g.h = 2; g.indices = {5, 6}; g.name = "gg"; m.groups = {g}; } break;
	default: m.lgWidth = 6; m.height = 1; m.sources = {{"abc", 1}}; m.savedFlag = 1; break;
	}
	m.tiles.resize(size_t(m.height) << m.lgWidth); for (size_t i = 0; i < m.tiles.size(); ++i) m.tiles[i] = uint32_t(i * 2654435761u);
	m.clip[2] = 31;
	return m;
}
} // namespace

void run_case(Tape& t, Stats& st) {
	uint8_t head = t.u8();
	if (head & 0x80) { // raw bytes straight into the map reader (small inputs) - libFuzzer's home turf
		std::vector<uint8_t> b = t.rest();
		arbitrary_case(b, false, (head & 1) != 0, st, "raw");
		return;
	}
	unsigned mode = head % 6;
	LMap m = mapgen::gen_lmap(t, mode == 3 ? 2048 : 8192);
	if (st.want_sample()) st.sample("{\"mode\":" + std::to_string(mode) + ",\"map\":" + mapgen::render(m) + "}");
	if (mode == 0) { valid_case(m, t.flag(), st, false, 499); return; }
	if (mode == 3) { refmap::SaveExtra x; x.unitCount = uint32_t(t.below(3)); x.sizeOfUnit = t.below(6) == 0 ? uint32_t(t.below(200)) : 120; x.objectCount1 = uint32_t(t.below(3)); x.objectCount2 = uint32_t(t.below(5)); x.nextFree = uint32_t(t.below(2)); x.firstFree = uint32_t(t.below(2)); x.fill = t.u8(); saved_equivalence(m, x, t.below(8) == 0, st, 0); return; }
	// corruption plan on a valid map or saved game
	bool saved = mode == 4;
	refmap::Layout L; std::vector<uint8_t> b;
	if (saved) { refmap::SaveExtra x; x.fill = t.u8(); x.objectCount2 = uint32_t(t.below(3)); LMap ms = m; ms.tiles.resize(std::min<size_t>(ms.tiles.size(), 64)); ms.lgWidth = 5; ms.height = uint32_t(ms.tiles.size() / 32); ms.tiles.resize(size_t(ms.height) * 32); b = refmap::encode_saved(ms, x, &L); }
	else b = refmap::encode(m, &L);
	unsigned k = 1 + unsigned(t.below(3));
	for (unsigned i = 0; i < k; ++i) {
		switch (t.below(5)) {
		case 0: case 1: case 2: { if (L.fields.empty()) break; size_t at = L.fields[t.below(L.fields.size())]; if (at + 4 > b.size()) break; uint32_t old = refvol::get32(b, at); uint32_t v = t.below(3) == 0 ? (t.flag() ? old + 1 : old - 1) : bnd[t.below(sizeof bnd / 4)]; for (int j = 0; j < 4; ++j) b[at + j] = uint8_t(v >> (8 * j)); break; }
		case 3: { size_t lo = saved ? refmap::SaveHeaderSkip : 0; if (b.size() > lo) b.resize(lo + t.below(b.size() - lo)); break; }
		default: if (!b.empty()) { size_t lo = saved ? refmap::SaveHeaderSkip : 0; if (b.size() > lo) b[lo + t.below(b.size() - lo)] = t.u8(); } break;
		}
	}
	arbitrary_case(b, saved, t.below(8) == 0, st, saved ? "corrupt_saved" : "corrupt_map");
}

void run_sweep(Stats& st) {
	// maps of more than 65536 tiles whose tile count is not a multiple of 65536 (whatever block size a reader takes the tile array in): accepted with
	// exactly width x height tiles, through memory and through a file; a sample of prefixes rejected
	for (unsigned v = 0; v < 3; ++v) { if (!sw("many_tiles", v)) continue; const unsigned dims[3][2] = {{9, 129}, {10, 65}, {7, 1000}};
		LMap m; m.lgWidth = dims[v][0]; m.height = dims[v][1]; m.tiles.resize(size_t(m.height) << m.lgWidth); for (size_t i = 0; i < m.tiles.size(); ++i) m.tiles[i] = uint32_t(i * 2654435761u + v); m.versionTag = 0x1011; m.mappings = {{1, 2, 3, 4}};
		valid_case(m, v & 1, st, false, 40009); }
	// valid maps: all prefixes
	for (unsigned w = 0; w < 4; ++w) { if (!sw("valid_prefixes", w)) continue; valid_case(small_seed(w), w & 1, st, true, 1); }
	// every header/length field x boundary value, on each seed
	for (unsigned w = 0; w < 4; ++w) {
		refmap::Layout L; std::vector<uint8_t> full = refmap::encode(small_seed(w), &L);
		for (size_t fi = 0; fi < L.fields.size(); ++fi) for (size_t vi = 0; vi < sizeof bnd / 4 + 2; ++vi) {
			if (!sw("field", w, fi, vi)) continue;
			std::vector<uint8_t> b = full; size_t at = L.fields[fi]; uint32_t old = refvol::get32(full, at);
			uint32_t v = vi < sizeof bnd / 4 ? bnd[vi] : vi == sizeof bnd / 4 ? old + 1 : old - 1;
			for (int j = 0; j < 4; ++j) b[at + j] = uint8_t(v >> (8 * j));
			arbitrary_case(b, false, false, st, "field");
		}
	}
	// (log2 width, height) pairs incl. over-wide shifts and products beyond 32 bits, on a map without tiles
	{
		refmap::Layout L; LMap m = small_seed(0); m.sources = {{"w", 1}}; std::vector<uint8_t> full = refmap::encode(m, &L);
		const uint32_t lgs[] = {0, 1, 5, 10, 16, 20, 24, 28, 30, 31, 32, 33, 63, 64, 255, 0x80000000u, 0xFFFFFFFFu};
		const uint32_t hs[] = {0, 1, 2, 3, 4, 16, 256, 4096, 0x10000, 0x100000, 0x7FFFFFFF, 0x80000000u, 0xFFFFFFFFu};
		for (uint32_t lg : lgs) for (uint32_t h : hs) {
			if (!sw("dims", lg, h)) continue;
			std::vector<uint8_t> b = full;
			for (int j = 0; j < 4; ++j) { b[8 + j] = uint8_t(lg >> (8 * j)); b[12 + j] = uint8_t(h >> (8 * j)); }
			arbitrary_case(b, false, false, st, "dims");
		}
	}
	// dimensions that only make sense after a wrap, on files that SUPPLY the tiles the wrapped value asks for: log2 width = 0 mod 32
	// (1 << 32 acting as 1 << 0), products of exactly 2^32 (+ a few tiles)
	{
		struct D { uint32_t lg, h; uint64_t supplied; };
		const D ds[] = {{32, 1, 1}, {32, 4, 4}, {64, 2, 2}, {0x100, 3, 3}, {0x80000000u, 1, 1}, {33, 2, 4}, {4, 0x10000001u, 16}, {10, 0x00400001u, 1024}, {1, 0x80000001u, 2}, {16, 0x10001u, 65536}, {31, 2, 0}, {16, 0x10000u, 0}};
		for (size_t di = 0; di < sizeof ds / sizeof ds[0]; ++di) {
			if (!sw("dims_supplied", di)) continue;
			LMap m = small_seed(0); m.sources = {{"w", 1}}; m.lgWidth = 0; m.height = uint32_t(ds[di].supplied); m.tiles.assign(size_t(ds[di].supplied), 0x01020304u);
			std::vector<uint8_t> b = refmap::encode(m);
			for (int j = 0; j < 4; ++j) { b[8 + j] = uint8_t(ds[di].lg >> (8 * j)); b[12 + j] = uint8_t(ds[di].h >> (8 * j)); }
			arbitrary_case(b, false, di & 1, st, "dims_supplied");
		}
	}
	// saved games: equivalence with the embedded map, prefixes (sampled in quick, all in thorough), header fields
	for (unsigned w = 0; w < 4; ++w) for (unsigned v = 0; v < 3; ++v) {
		if (!sw("saved", w, v)) continue;
		refmap::SaveExtra x; x.fill = uint8_t(w * 16 + v); if (v == 1) { x.objectCount1 = 2; x.objectCount2 = 3; x.unitCount = 4; } if (v == 2) { x.nextFree = 1; x.firstFree = 2; x.unitCount = 1; x.sizeOfUnit = 120; }
		saved_equivalence(small_seed(w), x, v == 1, st, (g_thorough && v == 0) ? 2 : 1);
	}
	for (unsigned w = 0; w < 4; ++w) {
		refmap::SaveExtra x; refmap::Layout L; std::vector<uint8_t> full = refmap::encode_saved(small_seed(w), x, &L);
		for (size_t fi = 0; fi < L.fields.size(); ++fi) for (size_t vi = 0; vi < sizeof bnd / 4; ++vi) {
			if (!sw("saved_field", w, fi, vi)) continue;
			std::vector<uint8_t> b = full; size_t at = L.fields[fi]; for (int j = 0; j < 4; ++j) b[at + j] = uint8_t(bnd[vi] >> (8 * j));
			arbitrary_case(b, true, false, st, "saved_field");
		}
	}
	// unit size other than 120 with NO units recorded is legal (the size check only applies when units exist): still the same map
	for (uint32_t us : {0u, 1u, 64u, 119u, 121u, 240u, 0xFFFFFFFFu}) for (unsigned w = 1; w < 4; ++w) {
		if (!sw("saved_unit_size_no_units", us, w)) continue;
		refmap::SaveExtra x; x.unitCount = 0; x.sizeOfUnit = us; x.fill = uint8_t(0x10 + w); x.objectCount2 = w;
		saved_equivalence(small_seed(w), x, w == 2, st, 1);
	}
	if (sw("saved_bad_unit")) { refmap::SaveExtra x; x.unitCount = 1; x.sizeOfUnit = 119; saved_equivalence(small_seed(1), x, false, st, 0); }
	st.exhaustive = true;
}

void write_seeds(const std::string& dir) {
	for (unsigned w = 0; w < 4; ++w) { auto b = refmap::encode(small_seed(w)); b.insert(b.begin(), 0x80); write_file(dir + "/map" + std::to_string(w), b); }
}
