// C05 — VOL/CLM readers and WAV intake are safe on arbitrary bytes; failed calls leave the archive usable;
// member streams deliver exactly the recorded extent or are refused.
#include "common/verif.h"
#include "ref/ref_vol.h"
#include "ref/ref_clm.h"
#include "ref/ref_lzh.h"
#include "Archive/VolFile.h"
#include "Archive/ClmFile.h"
#include <memory>
#include <sys/stat.h>
#include <unistd.h>

using namespace verif;
using namespace OP2Utility::Archive;
const char* const PROP_ID = "C05";

namespace {
enum Kind { KVol, KClm, KWav };

std::vector<uint8_t> vol_seed(unsigned which, std::vector<size_t>* fields = nullptr) {
	std::vector<refvol::Member> ms; refvol::EncodeOpts o;
	auto mem = [](const char* n, std::vector<uint8_t> p) { refvol::Member m; m.name = n; m.payload = std::move(p); m.sizeField = uint32_t(m.payload.size()); return m; };
	switch (which % 6) {
	case 0: break;
	case 1: ms.push_back(mem("a.txt", {1, 2, 3, 4, 5})); break;
	case 2: {
		ms.push_back(mem("A_one.bin", {9, 8, 7}));
		ms.push_back(mem("b", {}));
		std::vector<reflzh::Token> toks; for (unsigned k = 0; k < 12; ++k) toks.push_back({false, uint8_t('a' + k), 0, 0}); toks.push_back({true, 0, 9, 5});
		std::vector<uint8_t> plain; refvol::Member l; l.name = "c.lzh"; l.payload = reflzh::encode(toks, plain); l.comp = refvol::CompLZH; l.sizeField = uint32_t(plain.size()); ms.push_back(l);
		ms.push_back(mem("dd.dat", std::vector<uint8_t>(33, 0x5A)));
		break; }
	case 3: ms.push_back(mem("x1", {1})); ms.push_back(mem("x2", {2, 2})); o.unusedSlots = 2; o.unusedFill = 0x11223344; break;
	case 5: {   // the LAST member is compressed: truncations cut into its block only
		ms.push_back(mem("head.txt", {4, 5, 6, 7, 8, 9}));
		std::vector<reflzh::Token> toks; for (unsigned k = 0; k < 90; ++k) toks.push_back({false, uint8_t('A' + k % 23), 0, 0}); toks.push_back({true, 0, 40, 23}); for (unsigned k = 0; k < 30; ++k) toks.push_back({false, uint8_t(k * 9), 0, 0});
		std::vector<uint8_t> plain; refvol::Member l; l.name = "tail.lzh"; l.payload = reflzh::encode(toks, plain); l.comp = refvol::CompLZH; l.sizeField = uint32_t(plain.size()); ms.push_back(l);
		break; }
	default: for (int i = 0; i < 6; ++i) ms.push_back(mem((std::string("f") + char('0' + i) + ".map").c_str(), std::vector<uint8_t>(size_t(i * 5), uint8_t(i)))); o.namePadWords = 1; break;
	}
	std::vector<refvol::Extent> ext;
	auto b = refvol::encode(ms, o, &ext);
	if (fields) {
		fields->clear();
		for (size_t f : {size_t(4), size_t(12), size_t(20), size_t(24)}) fields->push_back(f);
		refvol::Loose L; refvol::locate(b, L);
		fields->push_back(L.indexAt - 4);
		for (size_t k = 0; k < L.entries.size(); ++k) for (size_t f : {size_t(0), size_t(4), size_t(8), size_t(12)}) fields->push_back(L.indexAt + 14 * k + f);
		for (auto& e : ext) { fields->push_back(e.blockOffset); fields->push_back(e.blockOffset + 4); }
	}
	return b;
}

std::vector<uint8_t> clm_seed(unsigned which, std::vector<size_t>* fields = nullptr) {
	std::vector<refclm::Track> ts;
	switch (which % 3) {
	case 0: break;
	case 1: ts.push_back({"EDEN11", std::vector<uint8_t>(10, 7)}); break;
	default: ts.push_back({"a", {1, 2}}); ts.push_back({"Bee_2", {}}); ts.push_back({"longnam8", std::vector<uint8_t>(21, 3)}); break;
	}
	refclm::WaveFormat f{1, 1, 22050, 44100, 2, 16};
	auto b = refclm::encode(f, ts);
	if (fields) {
		fields->clear();
		for (size_t x : {size_t(0), size_t(28), size_t(32), size_t(48), size_t(50), size_t(54), size_t(56)}) fields->push_back(x);
		for (size_t k = 0; k < ts.size(); ++k) for (size_t x : {size_t(0), size_t(7), size_t(8), size_t(12)}) fields->push_back(60 + 16 * k + x);
	}
	return b;
}

std::vector<uint8_t> wav_seed(unsigned which, std::vector<size_t>* fields = nullptr) {
	refclm::WavSpec w; w.fmt = {1, 1, 22050, 44100, 2, 16}; w.fmt18 = which & 1;
	w.data = {1, 2, 3, 4, 5, 6};
	if (which % 3 >= 1) { refclm::Chunk c; memcpy(c.tag, "LIST", 5); c.body = {9, 9, 9, 9}; w.beforeFmt.push_back(c); }
	if (which % 3 == 2) { refclm::Chunk c; memcpy(c.tag, "cue ", 5); c.body = {7, 7}; w.afterData.push_back(c); w.between.push_back(c); }
	auto b = refclm::build_wav(w);
	if (fields) {
		fields->clear(); fields->push_back(4);
		size_t p = 12;
		while (p + 8 <= b.size()) { fields->push_back(p); fields->push_back(p + 4); uint32_t l = refvol::get32(b, p + 4); p += 8 + l + ((l & 1) && p + 8 + l < b.size() ? 1 : 0); }
	}
	return b;
}

const uint32_t boundary32[] = {0, 1, 2, 13, 14, 15, 0x7FFFFFFF, 0x80000000u, 0xFFFFFFF8u, 0xFFFFFFFFu, 0x80000001u, 0x7FFFFFF8u, 0xFFFFFFF0u, 16, 28, 60, 0x100, 0x101, 0x102, 0x103, 0x104, 0xFFFF};   // 0x100..0x104: compression kinds (relabelled members)

std::string outcome_hash(const std::vector<uint8_t>& v) { return "ok:" + std::to_string(v.size()) + ":" + std::to_string(fnv1a(v.data(), v.size())); }

bool safe_name(const std::string& n) {
	if (n.empty() || n[0] == '.' || n.size() > 100) return false;
	for (char c : n) if (c == '/' || c == '\\' || c == 0) return false;
	return n.find("..") == std::string::npos;
}

struct Call { uint8_t op; uint64_t idx; std::string name; };

// performs one call; returns a canonical outcome string ("err" for std::exception)
std::string perform(ArchiveFile& a, VolFile* vol, const Call& c, const std::string& tag, std::vector<uint8_t>* streamBytes = nullptr, std::vector<uint8_t>* extracted = nullptr) {
	std::string r;
	try {
		switch (c.op % 10) {
		case 0: r = "ok:" + std::to_string(a.GetCount()); break;
		case 1: r = "ok:" + a.GetName(size_t(c.idx)); break;
		case 2: r = "ok:" + std::to_string(a.GetSize(size_t(c.idx))); break;
		case 3: r = vol ? "ok:" + std::to_string(unsigned(vol->GetCompressionCode(size_t(c.idx)))) : "n/a"; break;
		case 4: r = "ok:" + std::to_string(a.GetIndex(c.name)); break;
		case 5: r = a.Contains(c.name) ? "ok:true" : "ok:false"; break;
		case 6: { auto s = a.OpenStream(size_t(c.idx)); uint64_t len = s->Length();
			if (len > (64u << 20)) { r = "ok:huge"; break; }
			// the member stream itself: an over-long read is refused and changes nothing, then the whole member is still delivered
			if (len >= 1 && (c.idx & 1) == 0) {
				std::vector<uint8_t> head(std::min<uint64_t>(len, 3)); s->Read(head.data(), head.size());
				uint64_t pos = s->Position(); std::vector<uint8_t> over(size_t(len - pos + 1));
				bool threw = false; try { s->Read(over.data(), over.size()); } catch (const std::exception&) { threw = true; }
				V_CHECK(threw, "member stream of " << len << " bytes delivered " << over.size() << " bytes from position " << pos);
				V_CHECK(s->Position() == pos, "refused over-long read moved the member stream from " << pos << " to " << s->Position());
				s->SeekBeginning();
			}
			std::vector<uint8_t> b(len); s->Read(b.data(), b.size()); r = outcome_hash(b); if (streamBytes) *streamBytes = b; break; }
		case 8: { a.ExtractFile(size_t(c.idx), scratch_dir()); r = "ok:wrote-to-a-directory?"; break; }                      // destination is a directory: an ordinary error
		case 9: { std::string nm = c.name.empty() ? a.GetName(size_t(c.idx)) : c.name; std::string p = scratch_path("c05_n_" + tag + ".bin"); a.ExtractFile(nm, p); std::vector<uint8_t> b; read_file(p, b); r = outcome_hash(b); break; }   // by name
		default: { std::string p = scratch_path("c05_x_" + tag + ".bin"); a.ExtractFile(size_t(c.idx), p); std::vector<uint8_t> b; read_file(p, b); r = outcome_hash(b); if (extracted) *extracted = b; break; }
		}
	} catch (const Violation&) { throw; }
	catch (const std::exception&) { r = "err"; }
	return r;
}

std::unique_ptr<ArchiveFile> open_archive(Kind k, const std::string& path, VolFile** vol) {
	*vol = nullptr;
	if (k == KVol) { auto p = std::make_unique<VolFile>(path); *vol = p.get(); return p; }
	return std::make_unique<ClmFile>(path);
}

void archive_case(Kind kind, const std::vector<uint8_t>& bytes, const std::vector<Call>& calls, Stats& st, const char* origin) {
	std::string path = scratch_path(kind == KVol ? "c05.vol" : "c05.clm");
	write_file(path, bytes);
	VolFile* vol = nullptr; std::unique_ptr<ArchiveFile> ar;
	Out o = guarded([&] { ar = open_archive(kind, path, &vol); });
	if (o == Out::Err) { st.cls(std::string(origin) + (bytes.size() >= 8 && (kind == KVol ? refvol::tagat(bytes, 0, "VOL ") : bytes.size() >= 32 && memcmp(bytes.data(), refclm::VersionString, 32) == 0) ? ":rejected_after_first_tag" : ":rejected_at_first_tag")); if (bytes.size() >= 8) st.nt(fnv1a(bytes.data(), bytes.size()) ^ 0xE1); return; }
	st.cls(std::string(origin) + ":opened");
	size_t count = ar->GetCount();
	// own parse
	refvol::Loose L; bool located = false; std::vector<std::pair<uint64_t, uint64_t>> clmExt; size_t ownCount = 0;
	if (kind == KVol) { located = refvol::locate(bytes, L); if (located) { while (ownCount < L.entries.size() && L.entries[ownCount].nameOffset != 0xFFFFFFFFu) ++ownCount; } }
	else if (bytes.size() >= 60) { uint32_t n = refvol::get32(bytes, 56); if (60 + 16ull * n <= bytes.size()) { located = true; ownCount = n; for (uint32_t k = 0; k < n; ++k) clmExt.push_back({refvol::get32(bytes, 60 + 16 * k + 8), refvol::get32(bytes, 60 + 16 * k + 12)}); } }
	bool parseAgrees = located && ownCount == count;
	if (!parseAgrees) st.cls("own_parse_disagrees_on_count");
	bool anyOk = false, anyErr = false, okAfterErr = false;
	unsigned n = 0;
	for (const Call& c0 : calls) {
		Call c = c0;
		if ((c.op % 10) == 4 || (c.op % 10) == 5) { if (c.name.empty() && count) { try { c.name = ar->GetName(size_t(c.idx % count)); } catch (const std::exception&) {} } }
		std::vector<uint8_t> sb, xb;
		std::string tag = "L";
		std::string got = perform(*ar, vol, c, tag, &sb, &xb);
		// statelessness: same call on a fresh object
		VolFile* v2 = nullptr; std::unique_ptr<ArchiveFile> fresh;
		Out o2 = guarded([&] { fresh = open_archive(kind, path, &v2); });
		V_CHECK(o2 == Out::Ok, "file that opened once fails to open again (call " << n << ")");
		std::string want = perform(*fresh, v2, c, "F");
		V_CHECK(got == want, "call #" << n << " op " << int(c.op % 10) << " idx " << c.idx << " on the long-lived archive object gave '" << got.substr(0, 60) << "' but a fresh object gives '" << want.substr(0, 60) << "' (an earlier failed call changed the object)");
		if (got == "err") anyErr = true; else { if (got != "n/a") { anyOk = true; if (anyErr) okAfterErr = true; } }
		// index bounds
		unsigned op = c.op % 10;
		if (op == 8) V_CHECK(got == "err", "ExtractFile onto a path that is a directory did not fail");
		if ((op == 1 || op == 2 || op == 3 || op == 6 || op == 7 || op == 8) && c.idx >= count && got != "n/a") V_CHECK(got == "err", "per-member call op " << op << " accepted index " << c.idx << " >= count " << count);
		// extent exactness
		if (parseAgrees && c.idx < count && got != "err") {
			if (kind == KVol && op == 7 && L.entries[c.idx].comp != refvol::CompUncompressed) {
				// compressed member: the expanded bytes are C04's business, but the recorded extent must still lie inside the file
				uint64_t off = L.entries[c.idx].blockOffset;
				V_CHECK(off + 8 <= bytes.size() && refvol::tagat(bytes, off, "VBLK"), "compressed member " << c.idx << " extracted although its block header is not inside the file");
				uint64_t len = refvol::get32(bytes, off + 4) & 0x7FFFFFFFu;
				V_CHECK(off + 8 + len <= bytes.size(), "compressed member " << c.idx << " extracted although its recorded extent [" << off + 8 << ",+" << len << ") is not inside the " << bytes.size() << "-byte file (delivered short instead of refused)");
				st.cls("extent_checked_compressed");
			}
			if (kind == KVol && (op == 6 || (op == 7 && L.entries[c.idx].comp == refvol::CompUncompressed))) {
				uint64_t off = L.entries[c.idx].blockOffset;
				V_CHECK(off + 8 <= bytes.size() && refvol::tagat(bytes, off, "VBLK"), "member " << c.idx << " delivered although its block header is not inside the file");
				uint64_t len = refvol::get32(bytes, off + 4) & 0x7FFFFFFFu;
				V_CHECK(off + 8 + len <= bytes.size(), "member " << c.idx << " delivered although its recorded extent [" << off + 8 << ",+" << len << ") is not inside the " << bytes.size() << "-byte file");
				if (got != "ok:huge") {
					const std::vector<uint8_t>& b = op == 6 ? sb : xb;
					V_CHECK(b.size() == len && std::equal(b.begin(), b.end(), bytes.begin() + off + 8), "member " << c.idx << (op == 6 ? " stream" : " extraction") << " delivered " << b.size() << " bytes that are not exactly file[" << off + 8 << ",+" << len << ")");
				}
				st.cls("extent_checked");
			}
			if (kind == KClm && (op == 6 || op == 7)) {
				uint64_t off = clmExt[c.idx].first, len = clmExt[c.idx].second;
				V_CHECK(off + len <= bytes.size(), "CLM member " << c.idx << " delivered although its extent [" << off << ",+" << len << ") is not inside the " << bytes.size() << "-byte file");
				if (op == 6) V_CHECK(sb.size() == len && std::equal(sb.begin(), sb.end(), bytes.begin() + off), "CLM member stream is not exactly the recorded extent");
				else V_CHECK(xb.size() == len + 46 && std::equal(xb.begin() + 46, xb.end(), bytes.begin() + off), "CLM extraction does not carry exactly the recorded extent");
				st.cls("extent_checked");
			}
		}
		++n;
	}
	// ExtractAllFiles only with names the harness' own parse shows to be harmless
	if (count && count <= 16) {
		bool safe = true; std::vector<std::string> names;
		for (size_t i = 0; i < count && safe; ++i) { try { names.push_back(ar->GetName(i)); safe = safe_name(names.back()); } catch (const std::exception&) { safe = false; } }
		if (safe) { std::string d = scratch_path("c05_all"); mkdir(d.c_str(), 0700); for (auto& nm : names) remove((d + "/" + nm).c_str());
			Out oa = guarded([&] { ar->ExtractAllFiles(d); }); st.cls("extract_all_run");
			// the convenience call is bound by the same extent rule as member-by-member extraction: when it reports success every member's recorded
			// extent lies inside the file and every uncompressed member's file holds exactly that extent (never a short delivery)
			bool distinct = true; for (size_t i = 0; i < names.size(); ++i) for (size_t j = i + 1; j < names.size(); ++j) if (names[i] == names[j]) distinct = false;
			if (oa == Out::Ok && parseAgrees && distinct) for (size_t i = 0; i < count; ++i) {
				std::vector<uint8_t> xb; bool have = read_file(d + "/" + names[i], xb);
				if (kind == KVol) { uint64_t off = L.entries[i].blockOffset;
					V_CHECK(off + 8 <= bytes.size() && refvol::tagat(bytes, off, "VBLK"), "ExtractAllFiles reported success although the block header of member " << i << " is not inside the file");
					uint64_t len = refvol::get32(bytes, off + 4) & 0x7FFFFFFFu;
					V_CHECK(off + 8 + len <= bytes.size(), "ExtractAllFiles reported success although the recorded extent [" << off + 8 << ",+" << len << ") of member " << i << " is not inside the " << bytes.size() << "-byte file (delivered short instead of refused)");
					if (L.entries[i].comp == refvol::CompUncompressed) V_CHECK(have && xb.size() == len && std::equal(xb.begin(), xb.end(), bytes.begin() + off + 8), "ExtractAllFiles wrote " << xb.size() << " bytes for member " << i << " that are not exactly file[" << off + 8 << ",+" << len << ")"); }
				else { uint64_t off = clmExt[i].first, len = clmExt[i].second; V_CHECK(off + len <= bytes.size(), "ExtractAllFiles reported success although the extent of CLM member " << i << " is not inside the file"); V_CHECK(have && xb.size() == len + 46 && std::equal(xb.begin() + 46, xb.end(), bytes.begin() + off), "ExtractAllFiles: CLM member " << i << " does not carry exactly the recorded extent"); }
				st.cls("extract_all_extent_checked"); }
			for (auto& nm : names) remove((d + "/" + nm).c_str()); }
		else st.cls("extract_all_skipped_unsafe_names");
	}
	if (okAfterErr) { uint64_t h = fnv1a(bytes.data(), bytes.size(), kind); for (auto& c : calls) h = hmix(h, c.op % 10 * 1000 + c.idx % 1000); st.nt(h); st.cls("success_after_failure"); }
	(void)anyOk;
}

std::vector<Call> default_calls(size_t countGuess) {
	std::vector<Call> cs;
	cs.push_back({0, 0, ""});
	for (uint64_t i = 0; i <= countGuess + 1; ++i) for (uint8_t op : {uint8_t(1), uint8_t(2), uint8_t(3), uint8_t(6), uint8_t(7), uint8_t(4), uint8_t(5), uint8_t(8), uint8_t(9), uint8_t(6)}) cs.push_back({op, i, ""});
	// the same member twice in a row through each pair of access paths (extract/extract, extract/stream, stream/stream)
	for (uint64_t i = 0; i <= countGuess; ++i) for (uint8_t op : {uint8_t(7), uint8_t(7), uint8_t(6), uint8_t(6), uint8_t(7)}) cs.push_back({op, i, ""});
	// again from the start: earlier failures must not matter
	for (uint64_t i = 0; i <= countGuess; ++i) for (uint8_t op : {uint8_t(6), uint8_t(7), uint8_t(1)}) cs.push_back({op, i, ""});
	cs.push_back({4, 0, "no-such-member"}); cs.push_back({5, 0, "./A.TXT"});
	return cs;
}

void wav_case(const std::vector<std::vector<uint8_t>>& wavs, Stats& st, const char* origin) {
	std::vector<std::string> paths;
	for (size_t i = 0; i < wavs.size(); ++i) { std::string p = scratch_path(std::string("w") + char('a' + i) + ".wav"); write_file(p, wavs[i]); paths.push_back(p); }
	std::string out = scratch_path("c05_w.clm");
	remove(out.c_str());
	Out o = guarded([&] { ClmFile::CreateArchive(out, paths); });
	st.cls(std::string(origin) + (o == Out::Ok ? ":wav_accepted" : ":wav_refused"));
	if (o == Out::Ok) { // an archive: it must at least open and list
		std::unique_ptr<ClmFile> c; Out o2 = guarded([&] { c = std::make_unique<ClmFile>(out); });
		V_CHECK(o2 == Out::Ok, "CLM produced from accepted WAV input cannot be reopened");
		V_CHECK(c->GetCount() == wavs.size(), "CLM produced from " << wavs.size() << " WAVs lists " << c->GetCount());
	}
	if (!wavs.empty() && wavs[0].size() >= 12) st.nt(fnv1a(wavs[0].data(), wavs[0].size()) ^ 0x3A);
}

void mutate(std::vector<uint8_t>& b, const std::vector<size_t>& fields, Tape& t) {
	unsigned k = 1 + unsigned(t.below(3));
	for (unsigned i = 0; i < k; ++i) {
		switch (t.below(8)) {
		case 0: case 1: case 2: { // boundary value into a field
			if (fields.empty()) break;
			size_t at = fields[t.below(fields.size())];
			uint32_t old = at + 4 <= b.size() ? refvol::get32(b, at) : 0;
			uint32_t v;
			switch (t.below(6)) { case 0: v = old + 1; break; case 1: v = old - 1; break; case 2: v = uint32_t(b.size()) + uint32_t(t.below(3)) - 1; break; case 3: v = old ^ 0x80000000u; break; case 4: v = t.u32(); break; default: v = boundary32[t.below(sizeof boundary32 / 4)]; break; }
			for (int j = 0; j < 4 && at + j < b.size(); ++j) b[at + j] = uint8_t(v >> (8 * j));
			break; }
		case 3: if (!b.empty()) b.resize(t.below(b.size())); break;                                   // truncate
		case 4: if (!b.empty()) b[t.below(b.size())] = t.u8(); break;                                    // byte
		case 5: { size_t at = t.below(b.size() + 1); size_t n = 1 + t.below(16); auto ins = t.bytes(n); b.insert(b.begin() + at, ins.begin(), ins.end()); break; }
		case 6: if (b.size() > 4) { size_t at = t.below(b.size() - 1); size_t n = 1 + t.below(std::min<size_t>(16, b.size() - at)); b.erase(b.begin() + at, b.begin() + at + n); } break;
		default: { size_t n = t.below(64); auto ex = t.bytes(n); b.insert(b.end(), ex.begin(), ex.end()); break; }
		}
	}
}
} // namespace

void run_case(Tape& t, Stats& st) {
	uint8_t head = t.u8();
	bool raw = head & 0x80;
	Kind kind = Kind((head & 0x7F) % 3);
	if (raw) {
		std::vector<uint8_t> bytes = t.rest();
		if (kind == KWav) { wav_case({bytes}, st, "raw"); return; }
		uint32_t guess = 0;
		if (kind == KClm && bytes.size() >= 60) guess = std::min<uint32_t>(refvol::get32(bytes, 56), 6);
		if (kind == KVol) { refvol::Loose L; if (refvol::locate(bytes, L)) guess = uint32_t(std::min<size_t>(L.entries.size(), 8)); }
		archive_case(kind, bytes, default_calls(guess), st, "raw");
		return;
	}
	unsigned which = t.u8();
	std::vector<size_t> fields;
	if (kind == KWav) {
		unsigned nw = 1 + unsigned(t.below(3));
		std::vector<std::vector<uint8_t>> wavs;
		for (unsigned i = 0; i < nw; ++i) { auto w = wav_seed(which + i, &fields); if (i == 0 || t.below(3) == 0) mutate(w, fields, t); wavs.push_back(w); }
		wav_case(wavs, st, "structured");
		return;
	}
	std::vector<uint8_t> bytes = kind == KVol ? vol_seed(which, &fields) : clm_seed(which, &fields);
	mutate(bytes, fields, t);
	std::vector<Call> calls;
	unsigned nc = unsigned(t.below(24));
	for (unsigned i = 0; i < nc; ++i) { Call c; c.op = t.u8(); uint8_t ix = t.u8(); c.idx = ix < 200 ? ix % 9 : (ix < 230 ? 0xFFFFFFFFull : ~uint64_t(0) - (ix & 3)); if (t.below(3) == 0) c.name = t.pick<std::string>({"a.txt", "A.TXT", "./a.txt", "b", "nope", "x1", "EDEN11", "eden11", ""}); calls.push_back(c); }
	auto more = default_calls(6); calls.insert(calls.end(), more.begin(), more.end());
	if (st.want_sample()) st.sample(std::string("{\"kind\":\"") + (kind == KVol ? "vol" : "clm") + "\",\"seed\":" + std::to_string(which % 6) + ",\"bytes\":" + std::to_string(bytes.size()) + ",\"head\":\"" + hex(bytes, 32) + "\",\"calls\":" + std::to_string(calls.size()) + "}");
	archive_case(kind, bytes, calls, st, "structured");
}

// Accumulation: several hundred refused calls in one process (more than the descriptor budget of a harness process, see common/main.cpp), then lawful
// calls - which must behave as if the refused ones had never been made.  A resource that a refusal path does not give back shows here.
void refusal_storm(Kind kind, Stats& st) {
	std::vector<uint8_t> bytes; std::vector<uint8_t> good0;
	if (kind == KVol) { std::vector<refvol::Member> ms(2); ms[0].name = "good.bin"; ms[0].payload = {1, 2, 3, 4, 5, 6, 7, 8, 9, 10}; ms[1].name = "zbad.bin"; ms[1].payload.assign(40, 0x33); for (auto& m : ms) m.sizeField = uint32_t(m.payload.size()); bytes = refvol::encode(ms); good0 = ms[0].payload; }
	else { std::vector<refclm::Track> ts = {{"good", {9, 8, 7, 6, 5, 4}}, {"zbad", std::vector<uint8_t>(40, 0x44)}}; bytes = refclm::encode({1, 1, 22050, 44100, 2, 16}, ts); good0 = ts[0].data; }
	bytes.resize(bytes.size() - 9);                                   // the last member's recorded extent now runs past the end of the file
	std::string ap = scratch_path(kind == KVol ? "storm.vol" : "storm.clm"), bad = scratch_path("storm_bad.bin"), xp = scratch_path("storm_x.bin"), dir = scratch_path("storm_dir");
	write_file(ap, bytes); write_file(bad, std::vector<uint8_t>{'n', 'o', 'p', 'e', 0, 0, 0, 0, 1, 2, 3, 4}); mkdir(dir.c_str(), 0700);
	std::unique_ptr<ArchiveFile> a; if (kind == KVol) a = std::make_unique<VolFile>(ap); else a = std::make_unique<ClmFile>(ap);
	auto lawful = [&](const char* when) { std::string what; Out o = guarded([&] { auto s2 = a->OpenStream(0); std::vector<uint8_t> got(size_t(s2->Length())); s2->Read(got.data(), got.size()); V_CHECK(got == good0, "member 0 delivers other bytes " << when); a->ExtractFile(0, xp); std::vector<uint8_t> ex; V_CHECK(read_file(xp, ex) && (kind == KClm || ex == good0), "extraction of member 0 wrong " << when); remove(xp.c_str()); }, &what);
		V_CHECK(o == Out::Ok, "a lawful stream + extraction of member 0 failed " << when << ": " << what);
		o = guarded([&] { if (kind == KVol) VolFile f2(ap); else ClmFile f2(ap); }, &what); V_CHECK(o == Out::Ok, "opening the archive again failed " << when << ": " << what); };
	lawful("before any refused call");
	for (int i = 0; i < 400; ++i) V_CHECK(guarded([&] { a->OpenStream(1); }) == Out::Err, "stream of a member whose extent is outside the file was delivered");
	lawful("after 400 refused OpenStream calls");
	for (int i = 0; i < 400; ++i) V_CHECK(guarded([&] { a->ExtractFile(1, xp); }) == Out::Err, "extraction of a member whose extent is outside the file succeeded"); remove(xp.c_str());
	lawful("after 400 refused ExtractFile calls");
	for (int i = 0; i < 400; ++i) guarded([&] { a->ExtractFile(0, dir); });
	lawful("after 400 extractions onto a directory");
	for (int i = 0; i < 400; ++i) { guarded([&] { a->OpenStream(2 + size_t(i % 3)); }); guarded([&] { (void)a->GetIndex("absent.bin"); }); }
	lawful("after 400 calls with an index beyond the count / an absent name");
	for (int i = 0; i < 400; ++i) V_CHECK(guarded([&] { if (kind == KVol) VolFile f2(bad); else ClmFile f2(bad); }) == Out::Err, "a file that is no archive was opened");
	for (int i = 0; i < 400; ++i) guarded([&] { if (kind == KVol) VolFile f2(scratch_path("storm_missing")); else ClmFile f2(scratch_path("storm_missing")); });
	lawful("after 800 refused opens");
	a.reset(); remove(ap.c_str()); remove(bad.c_str()); rmdir(dir.c_str());
	st.cls("refusal_storm"); st.nt(hmix(kind, 0x5707));
}

void run_sweep(Stats& st) {
	for (unsigned k = 0; k < 2; ++k) if (sw("refusal_storm", k)) refusal_storm(Kind(k), st);
	// every proper prefix and every (field x boundary value) substitution of every seed
	for (unsigned k = 0; k < 2; ++k) {
		Kind kind = Kind(k);
		unsigned nseeds = kind == KVol ? 6 : 3;
		for (unsigned w = 0; w < nseeds; ++w) {
			std::vector<size_t> fields;
			std::vector<uint8_t> full = kind == KVol ? vol_seed(w, &fields) : clm_seed(w, &fields);
			auto calls = default_calls(6);
			for (size_t n = 0; n < full.size(); ++n) { if (!sw("prefix", k, w, n)) continue; std::vector<uint8_t> b(full.begin(), full.begin() + n); archive_case(kind, b, calls, st, "prefix"); }
			if (sw("intact", k, w)) archive_case(kind, full, calls, st, "intact");
			for (size_t fi = 0; fi < fields.size(); ++fi) {
				size_t at = fields[fi];
				uint32_t old = at + 4 <= full.size() ? refvol::get32(full, at) : 0;
				std::vector<uint32_t> vals(boundary32, boundary32 + sizeof boundary32 / 4);
				for (uint32_t v : {old - 1, old + 1, old ^ 0x80000000u, uint32_t(full.size()), uint32_t(full.size()) - 1, uint32_t(full.size()) + 1, uint32_t(full.size()) - 8, old + 14, old + 0x80000000u + 14}) vals.push_back(v);
				for (size_t vi = 0; vi < vals.size(); ++vi) {
					if (!sw("field", k * 8 + w, at, vi)) continue;
					std::vector<uint8_t> b = full;
					for (int j = 0; j < 4 && at + j < b.size(); ++j) b[at + j] = uint8_t(vals[vi] >> (8 * j));
					archive_case(kind, b, calls, st, "field");
				}
			}
			// coordinated pairs: index length vs entries, names vs entries
			if (kind == KVol && w >= 1) {
				refvol::Loose L; refvol::locate(full, L);
				for (uint32_t extra = 1; extra <= 28; ++extra) { if (!sw("indexlen_plus", w, extra)) continue; std::vector<uint8_t> b = full; uint32_t v = (L.iLen + extra) | 0x80000000u; for (int j = 0; j < 4; ++j) b[L.indexAt - 4 + j] = uint8_t(v >> (8 * j)); archive_case(kind, b, calls, st, "pair"); }
				for (uint32_t cut = 1; cut <= L.stl; ++cut) { if (!sw("names_shorter", w, cut)) continue; std::vector<uint8_t> b = full; uint32_t v = L.stl - cut; for (int j = 0; j < 4; ++j) b[24 + j] = uint8_t(v >> (8 * j)); archive_case(kind, b, calls, st, "pair"); }
				// remove NUL terminators: fewer names than entries
				for (uint32_t p = 0; p < L.stl; ++p) if (full[28 + p] == 0) { if (!sw("nul_removed", w, p)) continue; std::vector<uint8_t> b = full; b[28 + p] = 'Z'; archive_case(kind, b, calls, st, "pair"); }
			}
		}
	}
	// WAV intake: every prefix and field substitution of the seeds; pairs of files
	for (unsigned w = 0; w < 6; ++w) {
		std::vector<size_t> fields; auto full = wav_seed(w, &fields);
		for (size_t n = 0; n <= full.size(); ++n) { if (!sw("wav_prefix", w, n)) continue; wav_case({std::vector<uint8_t>(full.begin(), full.begin() + n)}, st, "wavsweep"); }
		for (size_t at : fields) for (size_t vi = 0; vi < sizeof boundary32 / 4 + 4; ++vi) {
			if (!sw("wav_field", w, at, vi)) continue;
			std::vector<uint8_t> b = full; uint32_t old = refvol::get32(full, at);
			uint32_t v = vi < sizeof boundary32 / 4 ? boundary32[vi] : vi == sizeof boundary32 / 4 ? old + 1 : vi == sizeof boundary32 / 4 + 1 ? old - 1 : vi == sizeof boundary32 / 4 + 2 ? uint32_t(full.size()) : uint32_t(0) - 8 - old;
			for (int j = 0; j < 4; ++j) b[at + j] = uint8_t(v >> (8 * j));
			wav_case({b, wav_seed(w)}, st, "wavsweep");
		}
	}
	st.exhaustive = true;
}

void write_seeds(const std::string& dir) {
	for (unsigned w = 0; w < 6; ++w) { auto b = vol_seed(w); b.insert(b.begin(), uint8_t(0x80 | KVol)); write_file(dir + "/vol" + std::to_string(w), b); }
	for (unsigned w = 0; w < 3; ++w) { auto b = clm_seed(w); b.insert(b.begin(), uint8_t(0x80 | KClm)); write_file(dir + "/clm" + std::to_string(w), b); }
	for (unsigned w = 0; w < 6; ++w) { auto b = wav_seed(w); b.insert(b.begin(), uint8_t(0x80 | KWav)); write_file(dir + "/wav" + std::to_string(w), b); }
}
