// C04 — LZH decompression equals the reference decoder, however it is drained.
#include "common/verif.h"
#include "ref/ref_lzh.h"
#include "ref/ref_vol.h"
#include "Archive/VolFile.h"
#include <memory>
#include <unistd.h>
#include <type_traits>

using namespace verif;
using namespace OP2Utility::Archive;
const char* const PROP_ID = "C04";

namespace {
const size_t kSizes[] = {1, 2, 3, 61, 62, 63, 4033, 4034, 4035, 4095, 4096, 4097, 10000};

struct Drain { int mode; std::vector<size_t> ks; std::vector<uint8_t> which; };   // mode 0 = internal buffer, 1 = GetData with sizes ks (cycled),
// 2 = one session mixing both interfaces: step i uses GetData(ks[i]) when which[i] else GetInternalBuffer (both cycled)

uint64_t g_forks_copy = 0, g_forks_move = 0;
struct LibResult { std::vector<uint8_t> out; bool threw = false; std::string what; };

LibResult run_lib(const std::vector<uint8_t>& in, const Drain& d, size_t limit) {
	LibResult r;
	// exact-size heap copy: an over-read of the compressed input is an ASan report
	uint8_t* heap = static_cast<uint8_t*>(malloc(in.size() ? in.size() : 1));
	struct F { uint8_t* p; ~F() { free(p); } } g{heap};
	if (!in.empty()) memcpy(heap, in.data(), in.size());
	try {
		auto decp = std::make_unique<HuffLZ>(BitStreamReader(heap, in.size()));
		// In a quarter of the runs the decoder object is replaced, after a few drain calls, by a copy (or a moved-to object) of itself and the
		// original is destroyed: the decoder is a value, and a copy taken in mid-stream is the decompressor of the same byte string in the same
		// state - it must continue with the same bytes.  (Compiled only while the class is copyable / movable.)
		const uint64_t hh = fnv1a(in.data(), in.size(), d.mode * 131 + (d.ks.empty() ? 0 : d.ks[0]));
		const size_t forkAt = (hh & 3) == 0 ? size_t((hh >> 8) % 7) : ~size_t(0);
		auto fork = [&](size_t step) {
			if (step != forkAt) return;
			if constexpr (std::is_copy_constructible_v<HuffLZ>) { if ((hh >> 4) & 1) { auto c = std::make_unique<HuffLZ>(*decp); decp = std::move(c); g_forks_copy++; return; } }
			if constexpr (std::is_move_constructible_v<HuffLZ>) { auto c = std::make_unique<HuffLZ>(std::move(*decp)); decp = std::move(c); g_forks_move++; }
		};
#define dec (*decp)
		if (d.mode == 0) {
			for (size_t it = 0;; ++it) {
				fork(it);
				size_t n = 0;
				const char* p = dec.GetInternalBuffer(&n);
				if (n == 0) break;
				V_CHECK(n <= 4096, "GetInternalBuffer reported " << n << " bytes from a 4096-byte window");
				r.out.insert(r.out.end(), p, p + n);
				V_CHECK(r.out.size() <= limit, "decoder produced more than " << limit << " bytes; reference stops earlier (no termination?)");
			}
		} else if (d.mode == 2) {
			// both interfaces interleaved on ONE decoder: they drain the same queue, so the concatenation is the same byte sequence;
			// the stream has ended when the internal-buffer call reports 0 or a copy comes back short
			size_t i = 0;
			for (;; ++i) {
				fork(i);
				if (!d.which[i % d.which.size()]) {
					size_t n = 0;
					const char* p = dec.GetInternalBuffer(&n);
					if (n == 0) break;
					V_CHECK(n <= 4096, "GetInternalBuffer reported " << n << " bytes from a 4096-byte window");
					r.out.insert(r.out.end(), p, p + n);
				} else {
					size_t k = d.ks[i % d.ks.size()];
					char* buf = static_cast<char*>(malloc(k));
					struct F2 { char* p; ~F2() { free(p); } } g2{buf};
					size_t got = dec.GetData(buf, k);
					V_CHECK(got <= k, "GetData returned " << got << " for a buffer of " << k);
					r.out.insert(r.out.end(), buf, buf + got);
					if (got < k) break;
				}
				V_CHECK(r.out.size() <= limit, "decoder produced more than " << limit << " bytes; reference stops earlier (no termination?)");
			}
		} else {
			size_t i = 0;
			for (;;) {
				fork(i);
				size_t k = d.ks[i++ % d.ks.size()];
				char* buf = static_cast<char*>(malloc(k));
				struct F2 { char* p; ~F2() { free(p); } } g2{buf};
				size_t got = dec.GetData(buf, k);
				V_CHECK(got <= k, "GetData returned " << got << " for a buffer of " << k);
				r.out.insert(r.out.end(), buf, buf + got);
				V_CHECK(r.out.size() <= limit, "decoder produced more than " << limit << " bytes; reference stops earlier (no termination?)");
				if (got < k) break;
			}
		}
		// after the end of the stream both interfaces keep saying so and deliver nothing more
		for (int rep = 0; rep < 3; ++rep) {
			size_t n = 7; const char* p = dec.GetInternalBuffer(&n); (void)p;
			V_CHECK(n == 0, "GetInternalBuffer reported " << n << " more bytes after the stream had ended");
			char tail[5]; size_t g = dec.GetData(tail, sizeof tail);
			V_CHECK(g == 0, "GetData delivered " << g << " more bytes after the stream had ended");
		}
#undef dec
	} catch (const Violation&) { throw; }
	catch (const std::exception& e) { r.threw = true; r.what = e.what(); }
	return r;
}

void compare(const std::vector<uint8_t>& in, const reflzh::DecodeResult& ref, const Drain& d, const char* family) {
	size_t limit = ref.out.size() + 8192;
	LibResult lib = run_lib(in, d, limit);
	std::string how = d.mode == 0 ? "internal-buffer drain" : d.mode == 2 ? "one session mixing GetData and GetInternalBuffer (first size " + std::to_string(d.ks[0]) + ")" : "GetData drain (first size " + std::to_string(d.ks[0]) + ")";
	if (!ref.capacity) {
		V_CHECK(!lib.threw, family << ": decoder threw '" << lib.what << "' on an input the reference decodes completely (" << ref.codes << " codes, " << ref.out.size() << " bytes); " << how << "; input " << in.size() << "B " << hex(in, 24));
		if (in.empty() && lib.out.empty()) return;   // the statement is silent on the empty input
		V_CHECK(lib.out.size() == ref.out.size(), family << ": decoder produced " << lib.out.size() << " bytes, reference " << ref.out.size() << "; " << how << "; input " << in.size() << "B " << hex(in, 24));
		if (lib.out != ref.out) {
			size_t at = 0; while (at < ref.out.size() && lib.out[at] == ref.out[at]) ++at;
			V_CHECK(false, family << ": output differs from the reference at byte " << at << " of " << ref.out.size() << "; " << how << "; input " << in.size() << "B " << hex(in, 24));
		}
	} else {
		V_CHECK(lib.threw, family << ": input needs more than " << ref.codes << " symbol updates (counter capacity) but decoding did not end in an error; " << how << "; produced " << lib.out.size() << " bytes, reference had " << ref.out.size() << " at capacity");
		V_CHECK(lib.out.size() <= ref.out.size() && std::equal(lib.out.begin(), lib.out.end(), ref.out.begin()), family << ": bytes delivered before the capacity error are not a prefix of the reference output; " << how);
	}
}

void vol_path(const std::vector<uint8_t>& in, const reflzh::DecodeResult& ref) {
	refvol::Member m; m.name = "packed.bin"; m.payload = in; m.comp = refvol::CompLZH; m.sizeField = uint32_t(ref.out.size());
	{ uint64_t hh = fnv1a(in.data(), in.size()); if (hh % 3 == 1) m.sizeField = uint32_t(ref.out.size() / 2); else if (hh % 3 == 2) m.sizeField = uint32_t(ref.out.size() + 1 + hh % 5000); }   // the index size is only a label: extraction writes what the stream decodes to
	std::vector<uint8_t> vol = refvol::encode({m});
	std::string vp = scratch_path("c04.vol"), op = scratch_path("c04_out.bin");
	write_file(vp, vol);
	remove(op.c_str());
	VolFile v(vp);
	V_CHECK(v.GetCount() == 1 && v.GetCompressionCode(0) == CompressionType::LZH, "reference VOL with an LZH member not listed as such");
	std::string what;
	Out o = guarded([&] { v.ExtractFile(0, op); }, &what);
	if (ref.capacity) { V_CHECK(o == Out::Err, "VOL extraction of an LZH member beyond the counter capacity did not fail"); return; }
	V_CHECK(o == Out::Ok, "VOL extraction of an LZH member threw: " << what);
	std::vector<uint8_t> got; read_file(op, got);
	if (in.empty() && got.empty()) return;
	V_CHECK(got == ref.out, "file extracted from the LZH member (" << got.size() << " bytes) differs from the reference output (" << ref.out.size() << " bytes)");
	// several LZH members extracted through ONE archive object, larger packed size before smaller and again: every file is its own decode
	if (in.size() >= 2 && in.size() <= 20000) {
		std::vector<uint8_t> half(in.begin(), in.begin() + in.size() / 2), tiny(in.begin(), in.begin() + 1);
		reflzh::DecodeResult rh = reflzh::decode(half), rt = reflzh::decode(tiny);
		if (!rh.capacity && !rt.capacity) {
			std::vector<refvol::Member> ms;
			const std::vector<uint8_t>* packed[3] = {&in, &half, &tiny}; const reflzh::DecodeResult* refs[3] = {&ref, &rh, &rt}; const char* names[3] = {"a_big.bin", "b_half.bin", "c_tiny.bin"};
			for (int i = 0; i < 3; ++i) { refvol::Member mm; mm.name = names[i]; mm.payload = *packed[i]; mm.comp = refvol::CompLZH; mm.sizeField = uint32_t(refs[i]->out.size()); ms.push_back(mm); }
			write_file(vp, refvol::encode(ms));
			VolFile v3(vp);
			for (int idx : {0, 1, 2, 1, 0, 2}) {
				remove(op.c_str());
				Out o3 = guarded([&] { v3.ExtractFile(size_t(idx), op); }, &what);
				V_CHECK(o3 == Out::Ok, "extraction of LZH member " << idx << " of a three-member volume threw: " << what);
				std::vector<uint8_t> g3; read_file(op, g3);
				if (packed[idx]->empty() && g3.empty()) continue;
				V_CHECK(g3 == refs[idx]->out, "LZH member " << idx << " (" << packed[idx]->size() << " packed bytes) extracted after other members through the same archive object gives " << g3.size() << " bytes, its own decode has " << refs[idx]->out.size());
			}
			// the convenience entry point writes the same files: ExtractAllFiles into a directory (members in index order: larger packed size first)
			{ std::string dir = scratch_path("c04_all"); for (int i = 0; i < 3; ++i) remove((dir + "/" + names[i]).c_str());
			  Out oa = guarded([&] { v3.ExtractAllFiles(dir); }, &what);
			  V_CHECK(oa == Out::Ok, "ExtractAllFiles of a volume of three LZH members threw: " << what);
			  for (int i = 0; i < 3; ++i) { std::vector<uint8_t> ga; read_file(dir + "/" + names[i], ga); remove((dir + "/" + names[i]).c_str()); if (packed[i]->empty() && ga.empty()) continue;
			    V_CHECK(ga == refs[i]->out, "ExtractAllFiles wrote " << ga.size() << " bytes for LZH member " << i << " (" << packed[i]->size() << " packed bytes), its own decode has " << refs[i]->out.size() << " - or other bytes"); }
			  rmdir(dir.c_str()); }
		}
	}
}

Drain gen_drain(Tape& t) {
	Drain d; d.mode = t.below(3) == 0 ? 0 : 1;
	unsigned n = 1 + unsigned(t.below(4));
	for (unsigned i = 0; i < n; ++i) d.ks.push_back(t.below(5) == 0 ? 1 + t.below(12000) : kSizes[t.below(sizeof kSizes / sizeof kSizes[0])]);
	return d;
}

void account(Stats& st, const reflzh::DecodeResult& ref, const unsigned* lenHist, const unsigned* distHist, const char* fam, uint64_t h) {
	st.cls(std::string("family:") + fam);
	if (ref.out.size() > 4096) st.cls("window_wrap");
	if (ref.capacity) st.cls("capacity_crossing");
	unsigned lens = 0; for (unsigned l = 3; l <= 60; ++l) if (lenHist[l]) { ++lens; st.cls("match_len_seen:" + std::to_string(l)); }
	for (unsigned c = 0; c < 6; ++c) if (distHist[c]) st.cls("dist_class:" + std::to_string(c), distHist[c]);
	if (ref.out.size() > 4096 || ref.any_match) st.nt(h);
}
} // namespace

void run_case(Tape& t, Stats& st) {
	unsigned fam = unsigned(t.below(8));
	std::vector<uint8_t> in; const char* fname;
	std::vector<uint8_t> payload; size_t ntok = 0;
	if (fam <= 2) { // random bytes
		fname = "random";
		size_t n = t.below(g_thorough ? 20000 : 4097);
		if (t.below(3) == 0) n = t.below(40);
		in = n <= 256 ? t.bytes(n) : t.expand(n);
	} else if (fam == 3) { // constant / periodic
		fname = "periodic";
		size_t n = t.below(g_thorough ? 40000 : 6000);
		unsigned period = 1 + unsigned(t.below(4)); uint8_t pat[4] = {t.u8(), t.u8(), t.u8(), t.u8()};
		if (t.flag()) pat[0] = t.flag() ? 0x00 : 0xFF;
		in.resize(n); for (size_t i = 0; i < n; ++i) in[i] = pat[i % period];
	} else { // encoder-produced
		fname = "encoded";
		std::vector<reflzh::Token> toks;
		size_t n = 1 + t.below(g_thorough ? 1500 : 300);
		unsigned matchBias = unsigned(t.below(4));
		for (size_t i = 0; i < n; ++i) {
			reflzh::Token k{};
			if (t.below(4) < matchBias) {
				k.match = true;
				k.len = t.below(3) == 0 ? t.pick<unsigned>({3, 4, 59, 60}) : 3 + unsigned(t.below(58));
				switch (t.below(9)) {
				case 0: k.dist = 1 + unsigned(t.below(64)); break;
				case 1: k.dist = 65 + unsigned(t.below(192)); break;
				case 2: k.dist = 257 + unsigned(t.below(512)); break;
				case 3: k.dist = 769 + unsigned(t.below(768)); break;
				case 4: k.dist = 1537 + unsigned(t.below(1536)); break;
				case 5: k.dist = 3073 + unsigned(t.below(1024)); break;
				case 6: k.dist = 4096; break;
				case 7: k.dist = 1 + unsigned(t.below(k.len)); break;     // overlaps the write cursor
				default: k.dist = t.pick<unsigned>({1, 2, 64, 65, 256, 257, 768, 769, 1536, 1537, 3072, 3073, 4095, 4096}); break;
				}
			} else { k.match = false; k.lit = t.u8(); }
			toks.push_back(k);
		}
		in = reflzh::encode(toks, payload);
		ntok = toks.size();
	}
	unsigned lenHist[64] = {0}, distHist[6] = {0};
	reflzh::DecodeResult ref = reflzh::decode(in, lenHist, distHist);
	if (fam >= 4 && !ref.capacity) {
		V_CHECK(ref.out.size() >= payload.size() && std::equal(payload.begin(), payload.end(), ref.out.begin()), "reference decoder does not reproduce the encoder's payload (harness self-check)");
		V_CHECK(ref.codes - ntok < 8, "reference decoded " << ref.codes - ntok << " codes beyond the " << ntok << " tokens (harness self-check)");
	}
	Drain d1 = gen_drain(t), d2 = gen_drain(t);
	d2.mode = 1 - d1.mode; if (d2.ks.empty()) d2.ks.push_back(4096);
	compare(in, ref, d1, fname);
	compare(in, ref, d2, fname);
	if (t.below(2) == 0) {   // mixed session
		Drain d3; d3.mode = 2;
		unsigned n = 2 + unsigned(t.below(5));
		for (unsigned i = 0; i < n; ++i) {
			d3.which.push_back(uint8_t(t.below(3) != 0));
			d3.ks.push_back(t.below(4) == 0 ? 1 + t.below(9000) : t.pick<size_t>({1, 2, 3, 61, 62, 63, 96, 1000, 3000, 4033, 4034, 4035, 4095, 4096, 4097, 8192, 0, 0}));   // 0: a copy of nothing still fills the window
		}
		d3.which[t.below(n)] = 0; d3.which[t.below(n)] = 1;   // at least one of each whenever possible
		{ bool productive = false; for (unsigned i = 0; i < n; ++i) if (!d3.which[i] || d3.ks[i] > 0) productive = true; if (!productive) d3.ks[0] = 1; }   // a schedule of empty copies alone never drains anything
		compare(in, ref, d3, fname);
		st.cls("mixed_interface_session");
	}
	if (t.below(6) == 0) { vol_path(in, ref); st.cls("vol_extract_path"); }
	st.cls(d1.mode == 0 ? "first_drain:internal" : "first_drain:getdata");
	if (g_forks_copy) { st.cls("decoder_copied_in_mid_stream", g_forks_copy); g_forks_copy = 0; } if (g_forks_move) { st.cls("decoder_moved_in_mid_stream", g_forks_move); g_forks_move = 0; }
	account(st, ref, lenHist, distHist, fname, fnv1a(in.data(), in.size(), d1.ks[0]));
	if (st.want_sample()) st.sample(std::string("{\"family\":\"") + fname + "\",\"input_len\":" + std::to_string(in.size()) + ",\"input\":\"" + hex(in, 20) + "\",\"codes\":" + std::to_string(ref.codes) + ",\"output_len\":" + std::to_string(ref.out.size()) + ",\"drain\":[" + std::to_string(d1.mode) + "," + std::to_string(d1.ks[0]) + "]}");
}

void run_sweep(Stats& st) {
	unsigned lenHist[64] = {0}, distHist[6] = {0};
	// every match length 3..60 x every distance class boundary, after a literal prefix long enough to make the distance real
	const unsigned dists[] = {1, 2, 64, 65, 256, 257, 768, 769, 1536, 1537, 3072, 3073, 4095, 4096};
	for (unsigned len = 3; len <= 60; ++len) for (unsigned di = 0; di < sizeof dists / sizeof dists[0]; ++di) {
		if (!sw("match", len, dists[di])) continue;
		std::vector<reflzh::Token> toks;
		for (unsigned i = 0; i < 70; ++i) toks.push_back({false, uint8_t('A' + (i * 7) % 26), 0, 0});
		toks.push_back({true, 0, len, dists[di]});
		toks.push_back({false, 'z', 0, 0});
		toks.push_back({true, 0, len, dists[di]});
		std::vector<uint8_t> payload; auto in = reflzh::encode(toks, payload);
		auto ref = reflzh::decode(in, lenHist, distHist);
		V_CHECK(std::equal(payload.begin(), payload.end(), ref.out.begin()), "harness self-check: reference decode != payload");
		for (size_t k : {size_t(1), size_t(63), size_t(4096)}) compare(in, ref, Drain{1, {k}, {}}, "sweep-match");
		compare(in, ref, Drain{0, {1}, {}}, "sweep-match");
		account(st, ref, lenHist, distHist, "sweep-match", hmix(len, dists[di]));
	}
	// window wrap with every drain size of the table, internal buffer, and the VOL path
	{
		std::vector<reflzh::Token> toks;
		uint64_t s = 12345;
		for (unsigned i = 0; i < 2600; ++i) { s = s * 6364136223846793005ULL + 1442695040888963407ULL; if ((s >> 33) % 3) toks.push_back({true, 0, 3 + unsigned((s >> 40) % 58), 1 + unsigned((s >> 20) % 4096)}); else toks.push_back({false, uint8_t(s >> 50), 0, 0}); }
		std::vector<uint8_t> payload; auto in = reflzh::encode(toks, payload);
		auto ref = reflzh::decode(in, lenHist, distHist);
		for (size_t ki = 0; ki < sizeof kSizes / sizeof kSizes[0]; ++ki) { if (!sw("wrap_drain", kSizes[ki])) continue; compare(in, ref, Drain{1, {kSizes[ki]}, {}}, "sweep-wrap"); }
		if (sw("wrap_drain_mixed")) compare(in, ref, Drain{1, {1, 4097, 61, 4033, 3}, {}}, "sweep-wrap");
		if (sw("wrap_internal")) compare(in, ref, Drain{0, {1}, {}}, "sweep-wrap");
		// mixed sessions: copies adding up to exact multiples of the window, then the internal interface (and other switch points)
		{
			const std::vector<std::vector<size_t>> sched = {{4096}, {1000, 3000, 96}, {4095}, {4097}, {1}, {2048, 2048}, {8192}, {61, 4035}, {4034, 62}};
			for (size_t si = 0; si < sched.size(); ++si) for (unsigned pat = 0; pat < 3; ++pat) {
				if (!sw("wrap_mixed", si, pat)) continue;
				Drain d; d.mode = 2;
				for (size_t k : sched[si]) { d.ks.push_back(k); d.which.push_back(1); }
				if (pat == 0) { d.ks.push_back(1); d.which.push_back(0); }                                     // copies..., internal, repeat
				else if (pat == 1) { d.ks.insert(d.ks.begin(), 1); d.which.insert(d.which.begin(), 0); }      // internal, copies..., repeat
				else { d.ks.push_back(1); d.which.push_back(0); d.ks.push_back(1); d.which.push_back(0); }  // two internal calls in a row
				compare(in, ref, d, "sweep-wrap-mixed");
			}
			// 4096 single-byte copies, then the internal interface
			if (sw("wrap_mixed_bytes")) { Drain d; d.mode = 2; d.ks.assign(4097, 1); d.which.assign(4097, 1); d.which[4096] = 0; compare(in, ref, d, "sweep-wrap-mixed"); }
		}
		if (sw("wrap_vol")) vol_path(in, ref);
		account(st, ref, lenHist, distHist, "sweep-wrap", 4242);
	}
	// truncations of one encoded stream: every prefix must decode like the reference (termination, bits past the end = 0)
	{
		std::vector<reflzh::Token> toks;
		for (unsigned i = 0; i < 40; ++i) { toks.push_back({false, uint8_t(i * 11), 0, 0}); if (i % 3 == 2) toks.push_back({true, 0, 3 + i, 1 + i * 5}); }
		std::vector<uint8_t> payload; auto full = reflzh::encode(toks, payload);
		for (size_t n = 0; n <= full.size(); ++n) {
			if (!sw("prefix", n)) continue;
			std::vector<uint8_t> in(full.begin(), full.begin() + n);
			auto ref = reflzh::decode(in, lenHist, distHist);
			compare(in, ref, Drain{0, {1}, {}}, "sweep-prefix"); compare(in, ref, Drain{1, {7}, {}}, "sweep-prefix");
		}
	}
	// capacity-crossing inputs (more than 65221 codes): must end in an error, prefix delivered
	for (unsigned which = 0; which < 4; ++which) {
		if (!sw("capacity", which)) continue;
		const size_t sizes[4] = {30000, 140000, 80000, 120000};
		std::vector<uint8_t> in(sizes[which]);
		for (size_t i = 0; i < in.size(); ++i) in[i] = which == 0 ? 0x00 : which == 1 ? 0xFF : which == 2 ? uint8_t(i % 2 ? 0x0F : 0xA5) : uint8_t((i * 2654435761u) >> 13);
		auto ref = reflzh::decode(in, lenHist, distHist);
		st.cls(ref.capacity ? "directed_capacity_input:crosses" : "directed_capacity_input:does_not_cross");
		compare(in, ref, Drain{0, {1}, {}}, "sweep-capacity"); compare(in, ref, Drain{1, {4096}, {}}, "sweep-capacity"); compare(in, ref, Drain{1, {1}, {}}, "sweep-capacity");
		vol_path(in, ref);
		account(st, ref, lenHist, distHist, "sweep-capacity", which);
	}
	// token streams that cross capacity with a DOMINANT symbol (one leaf directly under the root, one-bit code) - every shape of the tree at the
	// moment of the 65222nd update must end in the same error: one literal only; a dominant literal with another every 7th / 50th / 1000th code,
	// the crossing code being the dominant or the other one; one match code only; two alternating symbols
	for (unsigned shape = 0; shape < 9; ++shape) {
		if (!sw("capacity_tokens", shape)) continue;
		std::vector<reflzh::Token> toks;
		for (unsigned i = 0; i < 65400; ++i) {
			reflzh::Token k{}; k.match = false; k.lit = 'A';
			if (shape == 1 && i % 7 == 3) k.lit = 'z';
			if (shape == 2 && i % 50 == 21) k.lit = uint8_t(i / 50);      // the code that crosses (index 65221 = 50*1304+21) is a rare one
			if (shape == 3 && i % 1000 == 221) k.lit = 0;                  // ditto
			if (shape == 4 && i % 1000 == 220) k.lit = 0;                  // the crossing code is the dominant one, a rare one just before it
			if (shape == 5 && i > 0) { k.match = true; k.len = 3; k.dist = 1; }
			if (shape == 6 && i > 0) { k.match = true; k.len = 60; k.dist = 1 + i % 3; }
			if (shape == 7) k.lit = i % 2 ? 'A' : 'B';
			if (shape == 8 && i >= 40000) k.lit = uint8_t(i);                // a long dominant phase, then cold symbols up to the crossing
			toks.push_back(k);
		}
		std::vector<uint8_t> payload; auto in = reflzh::encode(toks, payload);
		auto ref = reflzh::decode(in, lenHist, distHist);
		V_CHECK(ref.capacity, "harness: the directed token stream does not cross capacity");
		st.cls("capacity_tokens:crosses");
		compare(in, ref, Drain{0, {1}, {}}, "sweep-capacity-tokens"); compare(in, ref, Drain{0, {100000}, {}}, "sweep-capacity-tokens"); compare(in, ref, Drain{1, {4096}, {}}, "sweep-capacity-tokens");
		vol_path(in, ref);
	}
	// just below capacity: exactly the last representable update succeeds
	if (sw("capacity_edge")) {
		std::vector<reflzh::Token> toks;
		for (unsigned i = 0; i < 65221; ++i) toks.push_back({false, uint8_t(i % 5), 0, 0});
		std::vector<uint8_t> payload; auto in = reflzh::encode(toks, payload);
		auto ref = reflzh::decode(in, lenHist, distHist);
		// the padding bits of the last byte may or may not need a 65222nd code; both outcomes are the reference's call
		compare(in, ref, Drain{0, {1}, {}}, "sweep-capacity-edge"); compare(in, ref, Drain{1, {10000}, {}}, "sweep-capacity-edge");
		st.cls(ref.capacity ? "edge:needs_one_more_code" : "edge:fits_exactly");
	}
}

void write_seeds(const std::string&) {}
