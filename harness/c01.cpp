// C01 — VOL pack -> reopen -> extract returns exactly the files that went in; refusals before any damage.
#include "vol_common.h"
#include "Archive/VolFile.h"
#include <unistd.h>
#include <cstdio>
#include <sys/types.h>

using namespace verif;
using namespace volgen;
using namespace OP2Utility::Archive;
const char* const PROP_ID = "C01";

namespace {
std::vector<uint8_t> slurp(const std::string& p) { std::vector<uint8_t> v; read_file(p, v); return v; }

void verify_archive(const std::string& out, const std::vector<InFile>& fs, Tape& t, Stats& st) {
	auto order = expected_order(fs);
	VolFile v(out);
	V_CHECK(v.GetCount() == fs.size(), "archive lists " << v.GetCount() << " members for " << fs.size() << " inputs");
	mkdirs("%x/all/");
	for (size_t i = 0; i < order.size(); ++i) {
		const InFile& f = fs[order[i]];
		V_CHECK(v.GetName(i) == f.name, "member " << i << " is named " << jstr(v.GetName(i)) << ", expected " << jstr(f.name) << " (ascending case-insensitive order of the final path components)");
		V_CHECK(v.GetSize(i) == f.content.size(), "member " << jstr(f.name) << " size " << v.GetSize(i) << " != " << f.content.size());
		V_CHECK(v.GetCompressionCode(i) == CompressionType::Uncompressed, "member " << jstr(f.name) << " not listed as uncompressed");
		// stream, drained with tape-chosen read sizes
		auto s = v.OpenStream(i);
		V_CHECK(s->Length() == f.content.size(), "member stream length " << s->Length() << " != " << f.content.size());
		std::vector<uint8_t> got; size_t chunk = t.pick<uint32_t>({1, 2, 3, 7, 64, 4096, 131072, 1 << 20});
		if (f.content.size() > 5000 && chunk < 64) chunk = 4096;
		std::vector<uint8_t> buf(chunk);
		for (;;) { size_t k = s->ReadPartial(buf.data(), chunk); got.insert(got.end(), buf.begin(), buf.begin() + k); if (k < chunk) break; V_CHECK(got.size() <= f.content.size(), "member stream longer than the file"); }
		V_CHECK(got == f.content, "bytes streamed for member " << jstr(f.name) << " differ from the input file (" << got.size() << " vs " << f.content.size() << " bytes)");
		// lookup in several letter cases
		for (int k = 0; k < 3; ++k) {
			std::string q = k == 0 ? f.name : case_variant(f.name, k == 1 ? ~uint64_t(0) : t.u64());
			V_CHECK(v.Contains(q), "Contains(" << jstr(q) << ") false for member " << jstr(f.name));
			V_CHECK(v.GetIndex(q) == i, "GetIndex(" << jstr(q) << ") = " << v.GetIndex(q) << ", member is at " << i);
		}
		// member stream opened by (case-varied) name
		{ auto sn = static_cast<ArchiveFile&>(v).OpenStream(case_variant(f.name, t.u64())); std::vector<uint8_t> gn(size_t(sn->Length())); sn->Read(gn.data(), gn.size()); V_CHECK(gn == f.content, "OpenStream by name returned other bytes for " << jstr(f.name)); }
		// extraction by (case-varied) name
		std::string xp = "%x/one.bin";
		static_cast<ArchiveFile&>(v).ExtractFile(case_variant(f.name, t.u64()), xp);
		V_CHECK(slurp(xp) == f.content, "ExtractFile by name wrote different bytes for " << jstr(f.name));
	}
	// extract all
	for (auto& f : fs) remove(("%x/all/" + f.name).c_str());
	// destination spelled several ways, or a directory that does not exist yet (created on demand, as for any output file)
	std::string dest = t.pick<std::string>({"%x/all", "%x/all/", "./%x/all", "%x//all", "%x/all/."});
	bool fresh = !fs.empty() && t.below(4) == 0; std::string freshDir = "%x/fresh" + std::to_string(t.below(1000));
	if (fresh) { dest = freshDir; st.cls("extract_all_into_new_directory"); }
	v.ExtractAllFiles(dest);
	if (fresh) { for (auto& f : fs) { V_CHECK(slurp(freshDir + "/" + f.name) == f.content, "ExtractAllFiles into a new directory wrote different bytes for " << jstr(f.name)); remove((freshDir + "/" + f.name).c_str()); } rmdir(freshDir.c_str()); return; }
	for (auto& f : fs) { V_CHECK(slurp("%x/all/" + f.name) == f.content, "ExtractAllFiles wrote different bytes for " << jstr(f.name)); remove(("%x/all/" + f.name).c_str()); }
	(void)st;
}

void cleanup_inputs(const std::vector<InFile>& fs) { for (auto& f : fs) remove((f.dir + f.name).c_str()); }

void success_case(Tape& t, Stats& st, std::vector<InFile> fs, bool sample) {
	adopted_listing().clear();
	// one case in eight: an input is named like a temporary / backup companion of the output (out.vol.tmp, out.vol.bak, out.vol~ ...) and sits
	// next to it: another file, so a legal input, and it must come through unharmed like any other
	int companion = -1; std::string stem;
	if (!fs.empty() && t.below(8) == 0) {
		size_t k = t.below(fs.size()); stem = t.pick<std::string>({"out.vol", "maps.vol", "a", "OUT.VOL"});
		std::string nn = stem + t.pick<std::string>({".tmp", ".tmp", ".bak", ".new", "~", ".part", ".tmp~", ".0", ".temp", ".swp", ".lock", ".old", "$", ".TMP"});
		bool ok = true; for (auto& g : fs) if (ieq(g.name, nn) || ieq(g.name, stem)) ok = false;
		if (ok) { fs[k].name = nn; companion = int(k); }
	}
	materialise(fs, t);
	// listing order: tape-chosen permutation
	std::vector<std::string> paths;
	std::vector<size_t> perm(fs.size()); for (size_t i = 0; i < perm.size(); ++i) perm[i] = i;
	for (size_t i = perm.size(); i > 1; --i) std::swap(perm[i - 1], perm[t.below(i)]);
	for (size_t i : perm) paths.push_back(fs[i].spelled);
	mkdirs("%o/");
	std::string out = t.pick<std::string>({"%o/out.vol", "./%o/out.vol", "%o/OUT.VOL", root() + "/%o/out.vol", "%o//out2.vol", "%o/%new/out.vol"});
	if (out == "%o/%new/out.vol") { remove("%o/%new/out.vol"); rmdir("%o/%new"); st.cls("output_in_new_directory"); }
	bool pre = t.flag(); if (out == "%o/%new/out.vol") pre = false;
	// one case in eight: the output sits next to an input and its name is a proper PREFIX of that input's name (another file, so legal)
	bool prefixOut = false;
	if (!fs.empty() && t.below(8) == 0) {
		const InFile& f = fs[t.below(fs.size())];
		if (f.name.size() >= 2) {
			std::string cand = f.dir + f.name.substr(0, 1 + t.below(f.name.size() - 1));
			bool ok = cand.back() != '.' || cand.size() > f.dir.size() + 1;
			for (auto& g : fs) if (ieq(g.dir + g.name, cand)) ok = false;
			for (const char* r : {"d0", "d1", "sub", "in", "o", "x", "all", ".", ".."}) if (ieq(cand.substr(f.dir.size()), r)) ok = false;
			if (ok) { out = cand; prefixOut = true; pre = false; st.cls("output_is_prefix_of_an_input_name"); }
		}
	}
	if (companion >= 0 && !prefixOut) { out = fs[size_t(companion)].dir + stem; st.cls("input_is_a_companion_name_of_the_output"); }
	remove(out.c_str());
	if (pre) write_file(out, std::vector<uint8_t>(t.flag() ? 37 : 70000, 0x77));   // shorter or LONGER than the archive that replaces it
	if (sample && st.want_sample()) st.sample(render(fs, out));
	std::string what;
	Out o = guarded([&] { VolFile::CreateArchive(out, paths); }, &what);
	V_CHECK(o == Out::Ok, "CreateArchive refused a legal file set (" << fs.size() << " files): " << what);
	for (auto& f : fs) V_CHECK(slurp(f.dir + f.name) == f.content, "input file " << jstr(f.dir + f.name) << " was modified by CreateArchive");
	{ // names holding bytes >= 0x80: their rank against ASCII is the implementation's choice (ref_vol.h); the written listing must be ascending under SOME
	  // case-insensitive byte order, hold exactly the input names, and is then what the remaining checks follow
		bool hi = false; for (auto& f : fs) if (refvol::has_high_byte(f.name)) hi = true;
		if (hi) { refvol::Loose L; std::vector<uint8_t> got = slurp(out); V_CHECK(refvol::locate(got, L) && L.names.size() == fs.size(), "the written archive does not list " << fs.size() << " names");
			std::string oe = refvol::order_consistent(L.names); V_CHECK(oe.empty(), "written archive: " << oe);
			std::vector<std::string> x = L.names, y; for (auto& f : fs) y.push_back(f.name); std::sort(x.begin(), x.end()); std::sort(y.begin(), y.end()); V_CHECK(x == y, "the written archive does not list exactly the input names");
			adopted_listing() = L.names; st.cls("names_with_bytes_above_0x7F"); }
	}
	{ // the whole file, byte for byte, against the independent encoder (also catches a stale tail left by a lost truncation)
		std::vector<refvol::Member> ms; for (size_t i : expected_order(fs)) { refvol::Member m; m.name = fs[i].name; m.payload = fs[i].content; m.sizeField = uint32_t(m.payload.size()); ms.push_back(m); }
		std::vector<uint8_t> want = refvol::encode(ms), got = slurp(out);
		if (got != want) { size_t at = 0; while (at < got.size() && at < want.size() && got[at] == want[at]) ++at; V_CHECK(false, "archive bytes differ from the independent encoding of the same members at offset " << at << " (file " << got.size() << " bytes, expected " << want.size() << (pre ? "; the output existed before" : "") << ")"); }
	}
	verify_archive(out, fs, t, st);
	{ // a session of up to 12 calls in tape-chosen order on ONE archive object, refused calls included (see vol_common.h)
		unsigned steps = unsigned(t.below(13));
		if (steps && !fs.empty()) {
			std::vector<std::string> names; std::vector<std::vector<uint8_t>> streams; for (size_t i : expected_order(fs)) { names.push_back(fs[i].name); streams.push_back(fs[i].content); }
			VolFile v(out);
			Session<VolFile> se{v, names, streams, [&](size_t i, const std::string& p) { V_CHECK(slurp(p) == streams[i], "session: extraction of member " << i << " " << jstr(names[i]) << " wrote other bytes than the input file"); }, {}, {}, {}};
			se.run(t, st, steps);
		}
	}
	size_t tbl = 0; bool nonempty = false;
	for (auto& f : fs) { tbl += f.name.size() + 1; st.cls("size_mod4:" + std::to_string(f.content.size() % 4)); if (!f.content.empty()) nonempty = true; if (f.content.size() >= 131071) st.cls("chunk_boundary_size"); }
	st.cls("table_mod4:" + std::to_string(tbl % 4));
	st.cls("files:" + std::to_string(std::min<size_t>(fs.size(), 8)));
	if (fs.size() >= 2 && nonempty) { uint64_t h = fs.size(); for (auto& f : fs) h = fnv1a(f.name.data(), f.name.size(), hmix(h, f.content.size())); for (auto& p : paths) h = fnv1a(p.data(), p.size(), h); st.nt(h); }
	cleanup_inputs(fs); remove(out.c_str()); rmdir("%o/%new"); adopted_listing().clear();
}

// (a) two inputs equal ignoring case
void dup_case(Tape& t, Stats& st) {
	auto fs = gen_files(t, 5);
	InFile a; a.name = gen_name(t, 10); a.dir = t.flag() ? "" : "%d0/"; a.content = t.expand(t.below(50));
	InFile b = a; b.name = case_variant(a.name, t.u64()); b.content = t.expand(t.below(50));
	if (b.name == a.name) b.dir = a.dir.empty() ? "%d1/%sub/" : "";     // identical spelling needs another directory
	else if (t.flag()) b.dir = "%d1/%sub/";
	for (auto it = fs.begin(); it != fs.end();) { if (ieq(it->name, a.name)) it = fs.erase(it); else ++it; }
	fs.insert(fs.begin() + t.below(fs.size() + 1), a); fs.insert(fs.begin() + t.below(fs.size() + 1), b);
	materialise(fs, t);
	std::vector<std::string> paths; for (auto& f : fs) paths.push_back(f.spelled);
	mkdirs("%o/"); std::string out = "%o/dup.vol"; bool pre = t.flag(); remove(out.c_str());
	std::vector<uint8_t> old(21, 0x33); if (pre) write_file(out, old);
	Out o = guarded([&] { VolFile::CreateArchive(out, paths); });
	V_CHECK(o == Out::Err, "CreateArchive accepted two inputs whose names are equal ignoring case: " << jstr(a.name) << " and " << jstr(b.name));
	for (auto& f : fs) V_CHECK(slurp(f.dir + f.name) == f.content, "input modified although creation was refused");
	if (pre) V_CHECK(slurp(out) == old, "pre-existing output modified although creation was refused"); else V_CHECK(!file_exists(out), "output created although creation was refused");
	st.cls("refusal:duplicate_names"); st.nt(fnv1a(a.name.data(), a.name.size(), fnv1a(b.name.data(), b.name.size())) ^ 0xD0);
	cleanup_inputs(fs); remove(out.c_str());
}

// (b) the output path names an input up to case and one leading './'
void self_case(Tape& t, Stats& st) {
	auto fs = gen_files(t, 4);
	InFile a; a.name = gen_name(t, 8) + ".vol"; a.dir = t.pick<std::string>({"", "%d0/", "%d1/%sub/"}); a.content = t.expand(1 + t.below(200));
	for (auto it = fs.begin(); it != fs.end();) { if (ieq(it->name, a.name)) it = fs.erase(it); else ++it; }
	fs.insert(fs.begin() + t.below(fs.size() + 1), a);
	std::vector<std::string> paths;
	// materialise, but the victim is listed either as "dir/name" or "./dir/name"
	materialise(fs, t);
	size_t vi = 0; for (size_t i = 0; i < fs.size(); ++i) if (fs[i].name == a.name) vi = i;
	bool plain = false;
	if (a.dir.empty() && t.flag()) {   // plain-name class: the victim sits in the working directory itself
		remove((fs[vi].dir + fs[vi].name).c_str()); fs[vi].dir = ""; write_file(fs[vi].name, fs[vi].content); plain = true;
	}
	std::string rel = fs[vi].dir + fs[vi].name;
	bool inDot = t.flag(), outDot = t.flag();
	fs[vi].spelled = (inDot ? "./" : "") + rel;
	unsigned caseMode = unsigned(t.below(3));
	std::string outRel = caseMode == 0 ? rel : case_variant(rel, caseMode == 1 ? ~uint64_t(0) : t.u64());
	std::string out = (outDot ? "./" : "") + outRel;
	for (auto& f : fs) paths.push_back(f.spelled);
	bool sameFile = (outRel == rel);
	std::vector<uint8_t> outOld; bool outExisted = file_exists(out); if (outExisted) outOld = slurp(out);
	Out o = guarded([&] { VolFile::CreateArchive(out, paths); });
	V_CHECK(o == Out::Err, "CreateArchive(" << jstr(out) << ") accepted although the output names the input " << jstr(fs[vi].spelled) << " (same spelling up to letter case and a leading './')");
	for (auto& f : fs) V_CHECK(slurp(f.dir + f.name) == f.content, "input " << jstr(f.dir + f.name) << " modified although creation was refused");
	if (!sameFile) { if (outExisted) V_CHECK(slurp(out) == outOld, "existing output modified"); else V_CHECK(!file_exists(out), "output " << jstr(out) << " created although creation was refused"); }
	st.cls(plain ? "refusal:self_plain_name" : "refusal:self_directory_qualified");
	st.cls(std::string("refusal:self_dot_in=") + (inDot ? "1" : "0") + ",out=" + (outDot ? "1" : "0") + ",case=" + std::to_string(caseMode));
	st.nt(fnv1a(out.data(), out.size(), fnv1a(fs[vi].spelled.data(), fs[vi].spelled.size())) ^ 0x5E);
	cleanup_inputs(fs);
	if (!sameFile) remove(out.c_str());
}
} // namespace

void run_case(Tape& t, Stats& st) {
	root();
	unsigned mode = unsigned(t.below(8));
	if (mode == 0) { dup_case(t, st); return; }
	if (mode == 1) { self_case(t, st); return; }
	success_case(t, st, gen_files(t, g_thorough ? 40 : 12), true);
}

void run_sweep(Stats& st) {
	root();
	// all 16 (file size mod 4) x (name table length mod 4) residue pairs, with 1, 2 and 3 files; empty set
	std::vector<uint8_t> tp(64, 0);
	{ if (sw("empty_set")) { Tape t(tp); success_case(t, st, {}, false); } }
	for (unsigned sizeRes = 0; sizeRes < 4; ++sizeRes) for (unsigned tblRes = 0; tblRes < 4; ++tblRes) for (unsigned nfiles = 1; nfiles <= 3; ++nfiles) for (unsigned big = 0; big < 2; ++big) {
		if (!sw("residues", sizeRes, tblRes, nfiles, big)) continue;
		std::vector<InFile> fs;
		size_t tbl = 0;
		for (unsigned i = 0; i < nfiles; ++i) {
			InFile f; f.name = std::string(1, char('a' + i)) + (i % 2 ? "X" : "_y");
			if (i + 1 == nfiles) { while ((tbl + f.name.size() + 1) % 4 != tblRes) f.name += "q"; }
			tbl += f.name.size() + 1;
			f.dir = i == 1 ? "%d0/" : "";
			size_t base = big ? 131072 : 8 * (i + 1);
			f.content.resize(base + sizeRes); for (size_t k = 0; k < f.content.size(); ++k) f.content[k] = uint8_t(k * 31 + i);
			fs.push_back(f);
		}
		for (int v = 0; v < 4; ++v) { tp[0] = uint8_t(v); Tape t(tp); success_case(t, st, fs, false); }
	}
	// sizes around the copy chunk: every size in [131070, 131074] and [262142, 262146]
	for (size_t sz : {size_t(131070), size_t(131071), size_t(131072), size_t(131073), size_t(131074), size_t(262142), size_t(262143), size_t(262144), size_t(262145), size_t(262146)}) {
		if (!sw("chunk_sizes", sz)) continue;
		std::vector<InFile> fs(2);
		fs[0].name = "big.bin"; fs[0].content.resize(sz); for (size_t k = 0; k < sz; ++k) fs[0].content[k] = uint8_t(k ^ (k >> 8) ^ (k >> 16));
		fs[1].name = "Tail.txt"; fs[1].content = {1, 2, 3};
		Tape t(tp); success_case(t, st, fs, false);
	}
	// members that END in (or consist of) a long block of one byte value - zeros above all: silence, padding, sparse data - as the last member
	// with a size that is a multiple of four (nothing follows it in the archive) and elsewhere
	for (unsigned v = 0; v < 8; ++v) { if (!sw("block_of_one_value", v)) continue;
		std::vector<InFile> fs(3); fs[0].name = "a_first.bin"; fs[1].name = "m_mid.bin"; fs[2].name = "z_last.bin"; fs[1].dir = "%d0/";
		for (auto& f : fs) { f.content.resize(40); for (size_t k = 0; k < 40; ++k) f.content[k] = uint8_t(k * 7 + 1); }
		size_t which = v & 1 ? 1 : 2; uint8_t val = v & 2 ? 0xFF : 0x00; size_t head = v & 4 ? 5000 : 0, run = v & 4 ? 8192 : 4096 + 4 * (v & 3);
		fs[which].content.assign(head + run, val); for (size_t k = 0; k < head; ++k) fs[which].content[k] = uint8_t(k * 13 + 5);
		for (int r = 0; r < 2; ++r) { tp[0] = uint8_t(r * 3); Tape t(tp); success_case(t, st, fs, false); } }
	// zero-length members: alone, first, middle, last (block header ends exactly at end of file), two in a row
	for (unsigned mask = 1; mask < 16; ++mask) {
		if (!sw("zero_length", mask)) continue;
		std::vector<InFile> fs;
		for (unsigned i = 0; i < 4; ++i) { InFile f; f.name = std::string(1, char('p' + i)) + "_z"; f.dir = i == 2 ? "%d0/" : ""; if (!((mask >> i) & 1)) { f.content.resize(5 + i); for (size_t k = 0; k < f.content.size(); ++k) f.content[k] = uint8_t(k + 9 * i); } fs.push_back(f); }
		for (int v = 0; v < 2; ++v) { tp[0] = uint8_t(v * 5); Tape t(tp); success_case(t, st, fs, false); }
	}
	// name-length extremes: 1, 200 and 255 characters together; and (thorough) 700 members with 100-character names (name table > 65535 bytes)
	if (sw("long_names")) {
		std::vector<InFile> fs;
		for (size_t len : {size_t(1), size_t(200), size_t(255), size_t(254)}) { InFile f; f.name = std::string(len, char('a' + len % 7)); f.name[0] = char('A' + fs.size()); f.content.assign(3 + fs.size(), uint8_t(len)); fs.push_back(f); }
		Tape t(tp); success_case(t, st, fs, false);
	}
	if (g_thorough && sw("many_long_names")) {
		std::vector<InFile> fs;
		for (unsigned i = 0; i < 700; ++i) { InFile f; f.name = "n" + std::to_string(100000 + i * 7919 % 100000) + "_" + std::string(92, char('a' + i % 26)) + std::to_string(i); f.content.assign(i % 5, uint8_t(i)); f.dir = i % 50 == 0 ? "%d0/" : ""; fs.push_back(f); }
		Tape t(tp); success_case(t, st, fs, false);
	}
	// an archive beyond 2 GiB written by the library itself (about 2 s and, for that time, 2 GiB of scratch space): a sparse input of 2^31-1 bytes (the largest member the format takes) followed in
	// name order by two small members whose blocks start beyond 2^31 - listed, streamed (by index and by name) and extracted like any other member
	if (sw("huge_archive")) {
		mkdirs("%in/"); mkdirs("%o/"); std::string big = "%in/a_huge.bin", out = "%o/huge_out.vol"; remove(out.c_str());
		{ FILE* f = fopen(big.c_str(), "wb"); V_CHECK(f, "harness: sparse input"); const uint8_t a[3] = {7, 8, 9}; fwrite(a, 1, 3, f); fseeko(f, off_t(0x7FFFFFFF) - 3, SEEK_SET); const uint8_t z[3] = {0xE1, 0xE2, 0xE3}; fwrite(z, 1, 3, f); fclose(f); }
		std::vector<uint8_t> late(4099), last = {1, 2, 3, 4, 5, 6}; for (size_t i = 0; i < late.size(); ++i) late[i] = uint8_t(i * 13 + 1);
		write_file("%in/m_late.txt", late); write_file("%in/Z_last.dat", last);
		std::string what; Out o = guarded([&] { VolFile::CreateArchive(out, {"%in/Z_last.dat", big, "./%in/m_late.txt"}); }, &what);
		V_CHECK(o == Out::Ok, "CreateArchive refused a 2^31-1 byte member followed by two small ones: " << what);
		{ VolFile v(out); V_CHECK(v.GetCount() == 3 && v.GetName(0) == "a_huge.bin" && v.GetName(1) == "m_late.txt" && v.GetName(2) == "Z_last.dat", "listing of the archive beyond 2 GiB");
		  V_CHECK(v.GetSize(0) == 0x7FFFFFFFu && v.GetSize(1) == late.size() && v.GetSize(2) == last.size(), "sizes in the archive beyond 2 GiB");
		  for (size_t i : {size_t(1), size_t(2), size_t(1)}) { const auto& want = i == 1 ? late : last;
			o = guarded([&] { auto s = v.OpenStream(i); std::vector<uint8_t> got(size_t(s->Length())); s->Read(got.data(), got.size()); V_CHECK(got == want, "stream of member " << i << " (block beyond 2^31) delivers other bytes"); }, &what);
			V_CHECK(o == Out::Ok, "OpenStream(" << i << ") of a member whose block starts beyond 2^31 threw: " << what);
			o = guarded([&] { auto s = static_cast<ArchiveFile&>(v).OpenStream(i == 1 ? "M_LATE.TXT" : "z_last.DAT"); std::vector<uint8_t> got(size_t(s->Length())); s->Read(got.data(), got.size()); V_CHECK(got == want, "stream by name of member " << i << " delivers other bytes"); }, &what);
			V_CHECK(o == Out::Ok, "OpenStream(name) of a member whose block starts beyond 2^31 threw: " << what);
			o = guarded([&] { v.ExtractFile(i, "%x/huge_one.bin"); }, &what); V_CHECK(o == Out::Ok, "ExtractFile(" << i << ") beyond 2^31 threw: " << what); V_CHECK(slurp("%x/huge_one.bin") == want, "extraction beyond 2^31 wrote other bytes"); remove("%x/huge_one.bin"); }
		  auto s0 = v.OpenStream(0); V_CHECK(s0->Length() == 0x7FFFFFFFu, "length of the huge member stream"); uint8_t b3[3]; s0->Read(b3, 3); V_CHECK(b3[0] == 7 && b3[2] == 9, "first bytes of the huge member"); s0->Seek(uint64_t(0x7FFFFFFF) - 3); s0->Read(b3, 3); V_CHECK(b3[0] == 0xE1 && b3[2] == 0xE3, "last bytes of the huge member"); }
		remove(out.c_str()); remove(big.c_str()); remove("%in/m_late.txt"); remove("%in/Z_last.dat");
	}
	// many members: names built systematically from letters of both cases, digits and the punctuation that sorts between the
	// letter cases, so that every pair-ordering corner (prefix, case, '_' vs letter, '[' vs 'a') occurs next to each other
	for (unsigned n : {17u, 64u, 150u}) {
		if (!sw("many_files", n)) continue;
		const char alpha[] = {'a', 'B', '_', 'z', '[', 'Z', '0', '^', '.', '`', 'A', '-', 'b', '~', '{', '@'};
		std::vector<InFile> fs;
		for (unsigned i = 0; i < n; ++i) {
			InFile f; unsigned v = i * 7 + 3;
			f.name = std::string(1, alpha[v % 16]) + alpha[(v / 16) % 16] + (i % 3 == 0 ? std::string() : std::string(1, alpha[(v / 5) % 16]));
			if (f.name == "." || f.name == "..") f.name += "x";
			bool clash; do { clash = false; for (auto& g : fs) if (ieq(g.name, f.name)) { clash = true; f.name += char('0' + i % 10); } } while (clash);
			for (const char* r : {"d0", "d1", "sub", "in", "o", "x", "all"}) if (ieq(f.name, r)) f.name += "_";
			f.dir = i % 5 == 0 ? "%d0/" : "";
			f.content.resize(i % 9); for (size_t k = 0; k < f.content.size(); ++k) f.content[k] = uint8_t(i + k);
			fs.push_back(f);
		}
		for (int v = 0; v < 2; ++v) { tp[0] = uint8_t(v * 3); Tape t(tp); success_case(t, st, fs, false); }
	}
	// every session of three calls over {extract, extract onto a directory, stream, stream kept open} x three members (sizes 5, 8 and 0: the
	// second is a multiple of four, so the block after it follows without padding) on one archive object, plus a closing pass over all members
	{
		std::vector<InFile> fs(3); fs[0].name = "a.bin"; fs[0].content = {1, 2, 3, 4, 5}; fs[1].name = "B.bin"; fs[1].content = {9, 8, 7, 6, 5, 4, 3, 2}; fs[2].name = "c"; fs[2].dir = "%d0/";
		bool built = false; std::string out = "%o/sess.vol"; std::vector<std::string> names; std::vector<std::vector<uint8_t>> streams;
		typedef Session<VolFile> S; const unsigned ops[] = {S::ExtractGood, S::ExtractOntoDirectory, S::StreamWhole, S::StreamHold};
		for (unsigned a = 0; a < 12; ++a) for (unsigned b = 0; b < 12; ++b) for (unsigned c = 0; c < 12; ++c) {
			if (!sw("session3", a, b, c)) continue;
			if (!built) { Tape t(tp); materialise(fs, t); mkdirs("%o/"); std::vector<std::string> paths; for (auto& f : fs) paths.push_back(f.spelled); VolFile::CreateArchive(out, paths); for (size_t i : expected_order(fs)) { names.push_back(fs[i].name); streams.push_back(fs[i].content); } built = true; }
			VolFile v(out);
			S se{v, names, streams, [&](size_t i, const std::string& p) { V_CHECK(slurp(p) == streams[i], "session: extraction of member " << i << " wrote other bytes than the input file"); }, {}, {}, {}};
			se.step(ops[a / 3], a % 3, 0); se.step(ops[b / 3], b % 3, 1); se.step(ops[c / 3], c % 3, 2);
			for (size_t i = 0; i < 3; ++i) { se.step(S::StreamWhole, i, 0); se.step(S::ExtractGood, i, 0); }
			se.finish();
		}
		if (built) { cleanup_inputs(fs); remove(out.c_str()); }
	}
	st.exhaustive = true;
}

void write_seeds(const std::string&) {}
