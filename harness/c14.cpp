// C14 — writers write exactly what the history implies and refuse what does not fit.
#include "common/verif.h"
#include "Stream/MemoryWriter.h"
#include "Stream/DynamicMemoryWriter.h"
#include "Stream/FileWriter.h"
#include <sys/stat.h>
#include <unistd.h>
#include "Stream/MemoryReader.h"
#include "Stream/FileReader.h"
#include "Stream/SliceReader.h"
#include <memory>
#include <limits>

using namespace verif;
using namespace OP2Utility;
const char* const PROP_ID = "C14";

namespace {
uint64_t bval(uint8_t cls, uint64_t raw, uint64_t len, uint64_t pos) {
	uint64_t rem = len - pos;
	switch (cls % 16) {
	case 0: return 0; case 1: return 1; case 2: return len - 1; case 3: return len; case 4: return len + 1;
	case 5: return rem - 1; case 6: return rem; case 7: return rem + 1;
	case 8: return uint64_t(1) << 31; case 9: return uint64_t(1) << 32; case 10: return uint64_t(1) << 63; case 11: return ~uint64_t(0);
	case 12: return uint64_t(0) - pos; case 13: return uint64_t(0) - pos + (raw % 8);
	case 14: return raw % 70; default: return pos ? raw % (pos + 1) : 0;
	}
}
struct Rec { uint8_t op, cls; uint64_t raw; };
#pragma pack(push, 1)
struct Rec14 { uint32_t a; uint16_t b; uint64_t c; };
#pragma pack(pop)

// ---------- (a) fixed-buffer writer ----------
void fam_memory(Tape& t, Stats& st, std::string* trace) {
	size_t len = t.pick<uint32_t>({0, 1, 2, 5, 8, 16, 33, 64});
	if (t.flag()) len = t.below(65);
	const size_t G = 32;
	uint8_t* block = static_cast<uint8_t*>(malloc(len + 2 * G));
	struct F { uint8_t* p; ~F() { free(p); } } g{block};
	memset(block, 0xC5, len + 2 * G);
	std::vector<uint8_t> model(len, 0xC5); uint64_t cur = 0;
	Stream::MemoryWriter w(block + G, len);
	unsigned n = 1 + t.below(40);
	bool refused = false, nt = false; uint64_t h = len;
	for (unsigned i = 0; i < n && !t.empty(); ++i) {
		Rec r{t.u8(), t.u8(), t.u64()};
		unsigned op = r.op % 6;
		uint64_t a = bval(r.cls, r.raw, len, cur);
		h = hmix(hmix(h, op), a);
		if (trace) *trace += (op == 0 ? "Write(" : op == 1 ? "Seek(" : op == 2 ? "SeekForward(" : op == 3 ? "SeekBackward(" : op == 4 ? "WriteT(" : "SeekEnd/Begin(") + std::to_string(a) + ");";
		Out o = Out::Ok;
		switch (op) {
		case 0: { // Write(k bytes); source holds only min(k, 80) bytes so a wrongly accepted huge write over-reads visibly
			size_t k = size_t(a);
			size_t have = k < 80 ? k : 80;
			uint8_t* src = static_cast<uint8_t*>(malloc(have ? have : 1));
			struct F2 { uint8_t* p; ~F2() { free(p); } } g2{src};
			for (size_t j = 0; j < have; ++j) src[j] = uint8_t(r.raw >> (8 * (j & 7))) ^ uint8_t(j * 37 + i);
			o = guarded([&] { w.Write(src, k); });
			if (k <= len - cur) { V_CHECK(o == Out::Ok, "Write(" << k << ") fitting the buffer refused; trace=" << (trace ? *trace : "")); memcpy(model.data() + cur, src, k); cur += k; if (refused && k) nt = true; }
			else { V_CHECK(o == Out::Err, "Write(" << k << ") with only " << len - cur << " bytes left succeeded; trace=" << (trace ? *trace : "")); refused = true; }
			break; }
		case 1: o = guarded([&] { w.Seek(a); });
			if (a <= len) { V_CHECK(o == Out::Ok, "Seek in range refused"); cur = a; } else { V_CHECK(o == Out::Err, "Seek(" << a << ") beyond buffer of " << len << " succeeded; trace=" << (trace ? *trace : "")); refused = true; }
			break;
		case 2: o = guarded([&] { w.SeekForward(a); });
			if (a <= len - cur) { V_CHECK(o == Out::Ok, "SeekForward in range refused"); cur += a; } else { V_CHECK(o == Out::Err, "SeekForward(" << a << ") from " << cur << " in buffer of " << len << " succeeded (wrap-around?); trace=" << (trace ? *trace : "")); refused = true; }
			break;
		case 3: o = guarded([&] { w.SeekBackward(a); });
			if (a <= cur) { V_CHECK(o == Out::Ok, "SeekBackward in range refused"); cur -= a; } else { V_CHECK(o == Out::Err, "SeekBackward(" << a << ") from " << cur << " succeeded (wrap-around?); trace=" << (trace ? *trace : "")); refused = true; }
			break;
		case 4: { // typed writes
			uint8_t tmp[16]; size_t sz;
			switch (r.raw % 4) {
			case 0: { uint8_t v = uint8_t(r.raw >> 8); sz = 1; memcpy(tmp, &v, sz); o = guarded([&] { w.Write(v); }); break; }
			case 1: { uint16_t v = uint16_t(r.raw >> 8); sz = 2; memcpy(tmp, &v, sz); o = guarded([&] { w.Write(v); }); break; }
			case 2: { uint32_t v = uint32_t(r.raw >> 8); sz = 4; memcpy(tmp, &v, sz); o = guarded([&] { w.Write(v); }); break; }
			default: { Rec14 v{uint32_t(r.raw), uint16_t(r.raw >> 32), r.raw * 77}; sz = sizeof v; memcpy(tmp, &v, sz); o = guarded([&] { w.Write(v); }); break; }
			}
			if (sz <= len - cur) { V_CHECK(o == Out::Ok, "typed write fitting the buffer refused"); memcpy(model.data() + cur, tmp, sz); cur += sz; if (refused) nt = true; }
			else { V_CHECK(o == Out::Err, "typed write of " << sz << " bytes with " << len - cur << " left succeeded"); refused = true; }
			break; }
		default: if (r.raw & 1) { w.SeekEnd(); cur = len; } else { w.SeekBeginning(); cur = 0; } break;
		}
		V_CHECK(w.Position() == cur, "Position()=" << w.Position() << " model=" << cur << "; trace=" << (trace ? *trace : ""));
		V_CHECK(w.Length() == len, "Length()=" << w.Length() << " model=" << len);
		for (size_t j = 0; j < G; ++j) V_CHECK(block[j] == 0xC5 && block[G + len + j] == 0xC5, "guard zone byte modified; trace=" << (trace ? *trace : ""));
		V_CHECK(len == 0 || memcmp(block + G, model.data(), len) == 0, "buffer content differs from the model after op " << i << "; trace=" << (trace ? *trace : ""));
	}
	st.cls("fam:memory_writer");
	if (nt) st.nt(h ^ 0xA);
}

// ---------- (b) growing writer ----------
void fam_dynamic(Tape& t, Stats& st, std::string* trace) {
	std::unique_ptr<Stream::DynamicMemoryWriter> wp(t.flag() ? new Stream::DynamicMemoryWriter() : new Stream::DynamicMemoryWriter(t.below(300)));
	Stream::DynamicMemoryWriter& w = *wp;
	std::vector<uint8_t> model;
	unsigned n = 1 + t.below(40);
	bool refused = false, nt = false; uint64_t h = 77;
	for (unsigned i = 0; i < n && !t.empty(); ++i) {
		Rec r{t.u8(), t.u8(), t.u64()};
		unsigned op = r.op % 6;
		uint64_t sz = model.size();
		h = hmix(hmix(h, op), r.cls % 10);
		Out o = Out::Ok;
		switch (op) {
		case 0: case 5: { size_t k = r.raw % 97; if (r.cls % 7 == 0) k = 0; if (r.cls % 7 == 1) k = 4096 + r.raw % 5000;
			std::vector<uint8_t> src(k); for (size_t j = 0; j < k; ++j) src[j] = uint8_t(j * 13 + i + r.raw);
			if (trace) *trace += "Write(" + std::to_string(k) + ");";
			w.Write(src.data(), k); model.insert(model.end(), src.begin(), src.end()); if (refused && k) nt = true; break; }
		case 1: { // SeekForward
			uint64_t d; bool huge = false;
			switch (r.cls % 8) { case 0: d = 0; break; case 1: d = 1; break; case 2: d = r.raw % 5000; break; case 3: d = r.raw % (1u << 20); break;
				case 4: d = uint64_t(1) << 40; huge = true; break; case 5: d = uint64_t(1) << 63; huge = true; break; case 6: d = ~uint64_t(0); huge = true; break; default: d = (~uint64_t(0) - sz) + ((sz && (r.raw & 1)) ? 1 : 0); huge = true; break; }
			if (model.size() + (huge ? 0 : d) > (4u << 20)) { d = 0; huge = false; }
			if (trace) *trace += "SeekForward(" + std::to_string(d) + ");";
			o = guarded([&] { w.SeekForward(d); });
			if (huge) { V_CHECK(o == Out::Err, "SeekForward(" << d << ") on a growing writer of size " << sz << " succeeded; trace=" << (trace ? *trace : "")); refused = true; }
			else { V_CHECK(o == Out::Ok, "SeekForward(" << d << ") refused"); model.resize(model.size() + d, 0); }
			break; }
		case 2: { uint64_t d = bval(r.cls, r.raw, sz, sz);   // pos == len
			if (trace) *trace += "SeekBackward(" + std::to_string(d) + ");";
			o = guarded([&] { w.SeekBackward(d); });
			if (d <= sz) { V_CHECK(o == Out::Ok, "SeekBackward(" << d << ") within size " << sz << " refused"); model.resize(sz - d); }
			else { V_CHECK(o == Out::Err, "SeekBackward(" << d << ") beyond size " << sz << " succeeded; trace=" << (trace ? *trace : "")); refused = true; }
			break; }
		case 3: { uint64_t p; bool huge = false;
			switch (r.cls % 8) { case 0: p = 0; break; case 1: p = sz; break; case 2: p = sz ? r.raw % sz : 0; break; case 3: p = sz + r.raw % 3000; break;
				case 4: p = uint64_t(1) << 40; huge = true; break; case 5: p = uint64_t(1) << 63; huge = true; break; case 6: p = ~uint64_t(0); huge = true; break; default: p = sz + 1; break; }
			if (!huge && p > (4u << 20)) p = sz;
			if (trace) *trace += "Seek(" + std::to_string(p) + ");";
			o = guarded([&] { w.Seek(p); });
			if (huge) { V_CHECK(o == Out::Err, "Seek(" << p << ") on a growing writer succeeded"); refused = true; }
			else { V_CHECK(o == Out::Ok, "Seek(" << p << ") refused"); model.resize(p, 0); }
			break; }
		case 4: { uint32_t v = uint32_t(r.raw); w.Write(v); const uint8_t* b = reinterpret_cast<const uint8_t*>(&v); model.insert(model.end(), b, b + 4); if (refused) nt = true; if (trace) *trace += "WriteT;"; break; }
		}
		V_CHECK(w.Length() == model.size() && w.Position() == model.size(), "growing writer Length/Position " << w.Length() << "/" << w.Position() << " != model size " << model.size() << "; trace=" << (trace ? *trace : ""));
		auto rd = w.GetReader();
		V_CHECK(rd.Length() == model.size(), "GetReader length mismatch");
		std::vector<uint8_t> got(model.size());
		rd.Read(got.data(), got.size());
		V_CHECK(got == model, "growing writer content differs from the history's model (size " << model.size() << "); trace=" << (trace ? *trace : ""));
	}
	st.cls("fam:dynamic_writer");
	if (nt) st.nt(h ^ 0xB);
}

// ---------- (c) size-prefixed writes ----------
template <class S> void prefixed_one(size_t count, Stats& st) {
	std::vector<uint16_t> v(count);
	for (size_t i = 0; i < count; ++i) v[i] = uint16_t(i * 7 + 1);
	Stream::DynamicMemoryWriter w;
	Out o = guarded([&] { w.template Write<S>(v); });
	bool fits = count <= uint64_t(std::numeric_limits<S>::max());
	if (fits) {
		V_CHECK(o == Out::Ok, "size-prefixed write of " << count << " elements with a " << sizeof(S) << "-byte prefix refused");
		V_CHECK(w.Length() == sizeof(S) + 2 * count, "size-prefixed write produced " << w.Length() << " bytes");
		auto rd = w.GetReader(); S s; rd.Read(s);
		V_CHECK(uint64_t(s) == count, "prefix value " << (long long)s << " != container size " << count);
		std::vector<uint16_t> back(count); rd.Read(back);
		V_CHECK(back == v, "payload after prefix differs");
		// inverse through the typed reader
		auto rd2 = w.GetReader(); std::vector<uint16_t> back2{9, 9}; rd2.template Read<S>(back2);
		V_CHECK(back2 == v, "Read<S> does not invert Write<S>");
	} else {
		V_CHECK(o == Out::Err, "container of " << count << " elements written with a prefix type whose maximum is " << (long long)std::numeric_limits<S>::max() << " (truncated size field)");
		V_CHECK(w.Length() == 0 || w.Length() <= sizeof(S), "refused size-prefixed write left " << w.Length() << " bytes");
		st.cls("prefixed_refused");
	}
}
void fam_prefixed(Tape& t, Stats& st, size_t forced = SIZE_MAX, int forcedType = -1) {
	size_t count = forced != SIZE_MAX ? forced : t.pick<uint32_t>({0, 1, 126, 127, 128, 129, 254, 255, 256, 257, 32767, 32768, 65534, 65535, 65536, 65537});
	if (forced == SIZE_MAX && t.below(4) == 0) count = t.below(70000);
	int ty = forcedType >= 0 ? forcedType : int(t.below(6));
	switch (ty) {
	case 0: prefixed_one<int8_t>(count, st); break; case 1: prefixed_one<uint8_t>(count, st); break;
	case 2: prefixed_one<int16_t>(count, st); break; case 3: prefixed_one<uint16_t>(count, st); break;
	case 4: prefixed_one<uint32_t>(count, st); break; default: prefixed_one<int32_t>(count, st); break;
	}
	st.cls("fam:prefixed");
	st.nt(hmix(count, ty) ^ 0xC);
}

// ---------- (d) typed write / typed read inverse ----------
// a non-trivially-copyable user type that serialises itself: Writer::Write(T&) must hand it the writer
struct SelfWriting { std::vector<uint8_t> tail; uint32_t a = 0; uint16_t b = 0; void Write(Stream::Writer& w) { w.Write(a); w.Write(b); w.Write<uint8_t>(tail); } };
void fam_inverse(Tape& t, Stats& st) {
	Stream::DynamicMemoryWriter w;
	struct Item { int kind; uint64_t v; std::vector<uint16_t> vec; std::string str; std::u16string s16; std::u32string s32; std::vector<uint32_t> v32; };
	std::vector<Item> items;
	unsigned n = 1 + t.below(20);
	for (unsigned i = 0; i < n; ++i) {
		Item it; it.kind = int(t.below(13)); it.v = t.u64();
		switch (it.kind) {
		case 0: w.Write(uint8_t(it.v)); break;
		case 1: w.Write(uint16_t(it.v)); break;
		case 2: w.Write(uint32_t(it.v)); break;
		case 3: w.Write(uint64_t(it.v)); break;
		case 4: { Rec14 r{uint32_t(it.v), uint16_t(it.v >> 32), it.v * 3}; w.Write(r); break; }
		case 5: { size_t k = t.below(40); for (size_t j = 0; j < k; ++j) it.vec.push_back(t.u16()); w.Write<uint32_t>(it.vec); break; }
		case 7: { size_t k = t.below(20); for (size_t j = 0; j < k; ++j) it.s16.push_back(char16_t(t.u16())); w.Write<uint8_t>(it.s16); break; }      // wide characters: sizes count elements, bytes = elements x width
		case 8: { size_t k = t.below(12); for (size_t j = 0; j < k; ++j) it.s32.push_back(char32_t(t.u32())); w.Write<uint32_t>(it.s32); break; }
		case 9: { size_t k = t.below(20); for (size_t j = 0; j < k; ++j) it.s16.push_back(char16_t(t.u16())); w.Write(it.s16); break; }                 // unprefixed: the reader is told the length
		case 10: { size_t k = t.below(20); for (size_t j = 0; j < k; ++j) it.v32.push_back(t.u32()); w.Write<int16_t>(it.v32); break; }
		case 11: { size_t k = t.below(30); for (size_t j = 0; j < k; ++j) it.str.push_back(char(t.u8())); w.Write(it.str); break; }
		case 12: { SelfWriting sw; sw.a = uint32_t(it.v); sw.b = uint16_t(it.v >> 40); size_t k = t.below(9); for (size_t j = 0; j < k; ++j) { it.str.push_back(char(t.u8())); sw.tail.push_back(uint8_t(it.str.back())); } w.Write(sw); break; }
		default: { size_t k = t.below(30); for (size_t j = 0; j < k; ++j) it.str.push_back(char(t.u8())); w.Write<uint16_t>(it.str); break; }
		}
		items.push_back(it);
	}
	auto rd = w.GetReader();
	for (auto& it : items) {
		switch (it.kind) {
		case 0: { uint8_t x; rd.Read(x); V_CHECK(x == uint8_t(it.v), "u8 inverse"); break; }
		case 1: { uint16_t x; rd.Read(x); V_CHECK(x == uint16_t(it.v), "u16 inverse"); break; }
		case 2: { uint32_t x; rd.Read(x); V_CHECK(x == uint32_t(it.v), "u32 inverse"); break; }
		case 3: { uint64_t x; rd.Read(x); V_CHECK(x == it.v, "u64 inverse"); break; }
		case 4: { Rec14 x; rd.Read(x); V_CHECK(x.a == uint32_t(it.v) && x.b == uint16_t(it.v >> 32) && x.c == it.v * 3, "struct inverse"); break; }
		case 5: { std::vector<uint16_t> x; rd.Read<uint32_t>(x); V_CHECK(x == it.vec, "prefixed vector inverse"); break; }
		case 7: { std::u16string x = u"stale"; rd.Read<uint8_t>(x); V_CHECK(x == it.s16, "prefixed u16string inverse (" << it.s16.size() << " characters)"); break; }
		case 8: { std::u32string x; rd.Read<uint32_t>(x); V_CHECK(x == it.s32, "prefixed u32string inverse (" << it.s32.size() << " characters)"); break; }
		case 9: { std::u16string x(it.s16.size(), u'?'); rd.Read(x); V_CHECK(x == it.s16, "u16string inverse (" << it.s16.size() << " characters)"); break; }
		case 10: { std::vector<uint32_t> x(2, 7); rd.Read<int16_t>(x); V_CHECK(x == it.v32, "prefixed u32 vector inverse"); break; }
		case 11: { std::string x(it.str.size(), '?'); rd.Read(x); V_CHECK(x == it.str, "string inverse"); break; }
		case 12: { uint32_t a; uint16_t b; std::vector<uint8_t> tl; rd.Read(a); rd.Read(b); rd.Read<uint8_t>(tl); V_CHECK(a == uint32_t(it.v) && b == uint16_t(it.v >> 40) && std::string(tl.begin(), tl.end()) == it.str, "self-writing object inverse"); break; }
		default: { std::string x = "stale"; rd.Read<uint16_t>(x); V_CHECK(x == it.str, "prefixed string inverse"); break; }
		}
	}
	V_CHECK(rd.Position() == rd.Length(), "typed reads consumed " << rd.Position() << " of " << rd.Length() << " written bytes");
	st.cls("fam:inverse");
	if (items.size() >= 3) st.nt(fnv1a(t.data(), t.size()) ^ 0xD);
}

// ---------- (e) Reader -> Writer copy ----------
template <size_t Chunk> void do_copy(Stream::Writer& w, Stream::Reader& r) { w.Write<Chunk>(r); }
void copy_dispatch(unsigned ci, Stream::Writer& w, Stream::Reader& r) {
	switch (ci) { case 0: do_copy<1>(w, r); break; case 1: do_copy<2>(w, r); break; case 2: do_copy<3>(w, r); break; case 3: do_copy<7>(w, r); break;
		case 4: do_copy<16>(w, r); break; case 5: do_copy<4096>(w, r); break; case 6: do_copy<131072>(w, r); break; default: w.Write(r); break; }
}
const size_t chunkSizes[] = {1, 2, 3, 7, 16, 4096, 131072, 131072};
void copy_case(unsigned ci, size_t srcLen, size_t start, unsigned backend, unsigned dest, uint64_t seed, Stats& st) {
	size_t pre = backend >= 2 ? 5 : 0, post = backend >= 2 ? 3 : 0;   // slices sit inside a bigger buffer/file
	std::vector<uint8_t> full(pre + srcLen + post);
	uint64_t s = seed * 0x9E3779B97F4A7C15ULL + 1;
	for (auto& b : full) { s ^= s << 13; s ^= s >> 7; s ^= s << 17; b = uint8_t(s >> 16); }
	if (start > srcLen) start = srcLen;
	// content that a transfer loop might mistake for something else: the byte at the start and at every multiple of the chunk size (counted from the
	// start position) is 0xFF (== EOF as a char) or 0x00; the tail, or everything, is zero / 0xFF (a block a writer might "skip")
	{ unsigned cc = unsigned(seed >> 5) % 8; size_t chunk = chunkSizes[ci % (sizeof chunkSizes / sizeof chunkSizes[0])];
	  if (cc == 1 || cc == 2) for (size_t k = pre + start; k < pre + srcLen; k += chunk) full[k] = cc == 1 ? 0xFF : 0x00;
	  if (cc == 3 && srcLen) std::fill(full.begin() + long(pre + srcLen - std::min<size_t>(srcLen, 4096 + (seed % 5000))), full.begin() + long(pre + srcLen), uint8_t(0));
	  if (cc == 4) std::fill(full.begin() + long(pre), full.begin() + long(pre + srcLen), uint8_t(seed & 1 ? 0xFF : 0x00)); }
	std::vector<uint8_t> expect(full.begin() + pre + start, full.begin() + pre + srcLen);
	uint8_t* heap = static_cast<uint8_t*>(malloc(full.size() ? full.size() : 1));
	struct F { uint8_t* p; ~F() { free(p); } } g{heap};
	if (!full.empty()) memcpy(heap, full.data(), full.size());
	std::string path = scratch_path("c14_copy_src.bin");
	std::unique_ptr<Stream::BidirectionalReader> rd;
	switch (backend) {
	case 0: rd = std::make_unique<Stream::MemoryReader>(heap, full.size()); break;
	case 1: write_file(path, full); rd = std::make_unique<Stream::FileReader>(path); break;
	case 2: { Stream::MemoryReader m(heap, full.size()); rd = std::make_unique<Stream::MemoryReader>(m.Slice(pre, srcLen)); break; }
	default: { write_file(path, full); Stream::FileReader f(path); rd = std::make_unique<Stream::FileSliceReader>(f.Slice(pre, srcLen)); break; }
	}
	rd->Seek(start);
	std::vector<uint8_t> got; const char* dn = "";
	if (dest == 0) {
		dn = "dynamic"; Stream::DynamicMemoryWriter w; w.Write(uint8_t(0xEE));
		copy_dispatch(ci, w, *rd);
		got.resize(w.Length()); auto r2 = w.GetReader(); r2.Read(got.data(), got.size());
		V_CHECK(!got.empty() && got[0] == 0xEE, "copy disturbed earlier content"); got.erase(got.begin());
	} else if (dest == 1) {
		dn = "fixed"; std::vector<uint8_t> buf(expect.size() + 9, 0x5A); Stream::MemoryWriter w(buf.data(), buf.size());
		w.Write(uint8_t(0xEE));
		copy_dispatch(ci, w, *rd);
		V_CHECK(w.Position() == 1 + expect.size(), "fixed destination position " << w.Position() << " after copying " << expect.size() << " bytes (chunk " << chunkSizes[ci] << ", backend " << backend << ")");
		got.assign(buf.begin() + 1, buf.begin() + 1 + expect.size());
		for (size_t i = 1 + expect.size(); i < buf.size(); ++i) V_CHECK(buf[i] == 0x5A, "copy wrote past the transferred bytes");
	} else {
		dn = "file"; std::string out = scratch_path("c14_copy_dst.bin");
		{ Stream::FileWriter w(out); copy_dispatch(ci, w, *rd); }
		read_file(out, got);
	}
	V_CHECK(got.size() == expect.size(), "copy transferred " << got.size() << " bytes, source had " << expect.size() << " remaining (chunk " << chunkSizes[ci] << ", source length " << srcLen << ", start " << start << ", backend " << backend << ", dest " << dn << ")");
	V_CHECK(got == expect, "copied bytes differ (chunk " << chunkSizes[ci] << ", source length " << srcLen << ", start " << start << ", backend " << backend << ", dest " << dn << ")");
	// a plain FileReader makes no positional promise after hitting end of file; the bounded readers do (C12)
	if (backend != 1) V_CHECK(rd->Position() == srcLen, "reader left at " << rd->Position() << " instead of its end " << srcLen << " after copy (backend " << backend << ")");
	st.cls("fam:copy");
	size_t c = chunkSizes[ci];
	if (expect.size() % c != 0) st.nt(hmix(hmix(hmix(ci, srcLen), start), backend * 4 + dest) ^ 0xE);
}
void fam_copy(Tape& t, Stats& st) {
	unsigned ci = unsigned(t.below(8));
	size_t c = chunkSizes[ci];
	size_t len;
	switch (t.below(9)) { case 0: len = 0; break; case 1: len = 1; break; case 2: len = c - 1; break; case 3: len = c; break; case 4: len = c + 1; break;
		case 5: len = 2 * c - 1; break; case 6: len = 2 * c + 1; break; case 7: len = 3 * c + 5; break; default: len = t.below(g_thorough ? 400000 : 9000); break; }
	if (len > 3 * 131072 + 5) len = 3 * 131072 + 5;
	size_t start = t.below(3) == 0 ? t.below(len + 1) : 0;
	copy_case(ci, len, start, unsigned(t.below(4)), unsigned(t.below(3)), t.u32(), st);
}

// ---------- (f) FileWriter open-flag matrix ----------
// how: 0 = one Write; 1 = data split over three Write calls; 2 = writer move-constructed first, data written through the new object;
// 3 = moved into a heap object, original destroyed first; 4 = three bytes, then the bulk in one call, then the last two bytes
void filewriter_case(unsigned flags, bool exists, const std::vector<uint8_t>& old, const std::vector<uint8_t>& data, Stats& st, unsigned how = 0) {
	using FW = Stream::FileWriter;
	std::string path = scratch_path("c14_fw.bin");
	remove(path.c_str());
	if (exists) write_file(path, old);
	bool canExisting = flags & FW::CanOpenExisting, canNew = flags & FW::CanOpenNew, trunc = flags & FW::Truncate, app = flags & FW::Append;
	std::string what; bool invalidArg = false, threw = false;
	try {
		if (how == 3) {   // factory shape: the writer is moved into a longer-lived object and the original is destroyed BEFORE the data is written
			std::unique_ptr<FW> keep;
			{ FW w0(path, static_cast<FW::OpenMode>(flags)); w0.Write(data.data(), data.size() / 3); keep = std::make_unique<FW>(std::move(w0)); }
			std::vector<char> churn(65536, 'c'); (void)churn;
			for (size_t i = data.size() / 3; i < data.size(); i += 7) keep->Write(data.data() + i, std::min<size_t>(7, data.size() - i));
			keep.reset();
		} else {
			FW w(path, static_cast<FW::OpenMode>(flags));
			if (how == 1) { size_t a = data.size() / 3, b = data.size() / 2; w.Write(data.data(), a); w.Write(data.data() + a, b - a); w.Write(data.data() + b, data.size() - b); }
			else if (how == 2) { FW w2(std::move(w)); size_t a = data.size() / 2; w2.Write(data.data(), a); w2.Write(data.data() + a, data.size() - a); }
			else if (how == 4) { size_t a = std::min<size_t>(3, data.size()), b = data.size() > 5 ? data.size() - 2 : data.size(); w.Write(data.data(), a); w.Write(data.data() + a, b - a); w.Write(data.data() + b, data.size() - b); }   // small, bulk, small
			else w.Write(data.data(), data.size());
		}
	}
	catch (const std::invalid_argument& e) { invalidArg = true; threw = true; what = e.what(); }
	catch (const std::exception& e) { threw = true; what = e.what(); }
	std::vector<uint8_t> now; bool nowExists = read_file(path, now);
	std::ostringstream ctx; ctx << "how=" << how << " flags=" << flags << (exists ? " existing(" + std::to_string(old.size()) + "B)" : " absent") << " data=" << data.size() << "B";
	if ((!canExisting && !canNew) || (trunc && app)) {
		V_CHECK(invalidArg, "invalid flag set accepted or wrong error type (" << what << "): " << ctx.str());
		V_CHECK(nowExists == exists && (!exists || now == old), "file system changed by a refused open: " << ctx.str());
		st.cls("fw:invalid_flags");
	} else if ((exists && !canExisting) || (!exists && !canNew)) {
		V_CHECK(threw && !invalidArg, "existence rule not enforced: " << ctx.str());
		V_CHECK(nowExists == exists && (!exists || now == old), "file system changed by a refused open: " << ctx.str());
		st.cls("fw:refused_by_existence");
	} else {
		V_CHECK(!threw, "legal open refused (" << what << "): " << ctx.str());
		V_CHECK(nowExists, "file not created: " << ctx.str());
		if (!exists) { V_CHECK(now == data, "new file content differs from the data written: " << ctx.str()); st.cls("fw:created"); }
		else if (trunc) { V_CHECK(now == data, "Truncate: file holds " << now.size() << " bytes, expected exactly the " << data.size() << " written: " << ctx.str()); st.cls("fw:truncated"); }
		else if (app) {
			std::vector<uint8_t> e = old; e.insert(e.end(), data.begin(), data.end());
			V_CHECK(now == e, "Append: file holds " << now.size() << " bytes, expected old content (" << old.size() << ") + data (" << data.size() << "): " << ctx.str());
			st.cls("fw:appended");
		} else st.cls("fw:neither_trunc_nor_append(no content claim)");
	}
	remove(path.c_str());
	st.nt(hmix(hmix(flags, exists), hmix(old.size(), data.size())) ^ 0xF);
}
void fam_filewriter(Tape& t, Stats& st) {
	unsigned flags = unsigned(t.below(16)); bool exists = t.flag();
	auto old = t.bytes(t.below(40)); auto data = t.bytes(t.below(40));
	if (t.below(6) == 0) data = t.expand(t.pick<uint32_t>({4095, 4096, 4097, 8191, 8192, 8193, 65536, 70001}));     // beyond one stream buffer
	if (t.below(8) == 0) old = t.expand(t.pick<uint32_t>({4096, 8192, 8193, 20000}));
	unsigned how = unsigned(t.below(5));
	if (data.size() >= 4096 && (data[0] & 3) == 0) { size_t z = data[1] & 1 ? data.size() : std::min<size_t>(data.size(), 4096 + data[2] * 16); std::fill(data.end() - long(z), data.end(), uint8_t(data[3] & 1 ? 0xFF : 0x00)); st.cls("fw:data_ends_in_a_block_of_one_value"); }
	filewriter_case(flags, exists, old, data, st, how);
	st.cls("fw:how" + std::to_string(how));
	st.cls("fam:filewriter");
}
} // namespace

void run_case(Tape& t, Stats& st) {
	unsigned fam = unsigned(t.below(10));
	if (st.want_sample()) st.sample("{\"family\":" + std::to_string(fam) + ",\"tape\":\"" + hex(t.data(), t.size(), 40) + "\"}");
	Tape copy = t;
	try {
		switch (fam) {
		case 0: case 1: case 2: fam_memory(t, st, nullptr); break;
		case 3: case 4: fam_dynamic(t, st, nullptr); break;
		case 5: fam_prefixed(t, st); break;
		case 6: fam_inverse(t, st); break;
		case 7: case 8: fam_copy(t, st); break;
		default: fam_filewriter(t, st); break;
		}
	} catch (const Violation&) {
		std::string tr;
		if (fam <= 2) fam_memory(copy, st, &tr); else if (fam <= 4) fam_dynamic(copy, st, &tr);
		throw;
	}
}

void run_sweep(Stats& st) {
	// (c) full matrix: sizes at and beyond each prefix limit
	for (size_t count : {size_t(0), size_t(1), size_t(127), size_t(128), size_t(255), size_t(256), size_t(32767), size_t(32768), size_t(65535), size_t(65536)})
		for (int ty = 0; ty < 6; ++ty) { if (!sw("prefixed", count, ty)) continue; Tape t(nullptr, 0); fam_prefixed(t, st, count, ty); }
	// (e) full matrix chunk x length class x backend x destination
	for (unsigned ci = 0; ci < 8; ++ci) {
		size_t c = chunkSizes[ci];
		for (size_t len : {size_t(0), size_t(1), c - 1, c, c + 1, 2 * c - 1, 2 * c + 1, 3 * c + 5})
			for (unsigned backend = 0; backend < 4; ++backend)
				for (unsigned dest = 0; dest < 3; ++dest)
					for (size_t start : {size_t(0), len / 2}) {
						if (!sw("copy", ci, len, backend * 3 + dest, start)) continue;
						copy_case(ci, len, start, backend, dest, ci * 1000 + len, st);
					}
	}
	// (f) full matrix 16 flag sets x exists x {empty, non-empty} data/old
	for (unsigned flags = 0; flags < 16; ++flags)
		for (int ex = 0; ex < 2; ++ex)
			for (int variant = 0; variant < 3; ++variant) {
				if (!sw("filewriter", flags, ex, variant)) continue;
				std::vector<uint8_t> old = variant == 2 ? std::vector<uint8_t>{} : std::vector<uint8_t>{'h', 'e', 'l', 'l', 'o'};
				std::vector<uint8_t> data = variant == 1 ? std::vector<uint8_t>{} : std::vector<uint8_t>{'X', 'Y'};
				filewriter_case(flags, ex, old, data, st);
				// the same cell with split writes / a moved writer, and with data larger than a stream buffer
				std::vector<uint8_t> big(70001); for (size_t i = 0; i < big.size(); ++i) big[i] = uint8_t(i * 31 + (i >> 9));
				for (unsigned how = 1; how < 5; ++how) { filewriter_case(flags, ex, old, data, st, how); if (variant == 0) filewriter_case(flags, ex, old, big, st, how); st.evaluations += 2; }
			}
	// accumulation: every cell of the matrix whose open is REFUSED, 300 times in a row (more than the descriptor budget of a harness process), then
	// the whole matrix once more - a refusal path that keeps something (a descriptor) would make lawful opens fail by then
	for (unsigned flags = 0; flags < 16; ++flags) for (int ex = 0; ex < 2; ++ex) {
		using FW = Stream::FileWriter; bool canExisting = flags & FW::CanOpenExisting, canNew = flags & FW::CanOpenNew, trunc = flags & FW::Truncate, app = flags & FW::Append;
		bool refused = (!canExisting && !canNew) || (trunc && app) || (ex && !canExisting) || (!ex && !canNew);
		if (!refused || !sw("filewriter_refusal_storm", flags, ex)) continue;
		for (int i = 0; i < 300; ++i) filewriter_case(flags, ex, {'o', 'l', 'd'}, {'n', 'e', 'w'}, st);
		for (unsigned f2 = 0; f2 < 16; ++f2) for (int e2 = 0; e2 < 2; ++e2) filewriter_case(f2, e2, {'h', 'e', 'l', 'l', 'o'}, {'X', 'Y'}, st);
		// also a destination that is a directory, and one inside a directory that does not exist
		std::string d = scratch_path("c14_dir"); mkdir(d.c_str(), 0700);
		for (int i = 0; i < 300; ++i) { guarded([&] { FW w(d); }); guarded([&] { FW w(scratch_path("c14_nodir/x/y.bin"), static_cast<FW::OpenMode>(FW::CanOpenExisting)); }); }
		rmdir(d.c_str());
		for (unsigned f2 = 0; f2 < 16; ++f2) filewriter_case(f2, 1, {'h', 'i'}, {'Z'}, st);
	}
	// (a) all 2-step histories over the boundary table on a 5-byte buffer
	for (unsigned o1 = 0; o1 < 5; ++o1) for (unsigned c1 = 0; c1 < 14; ++c1) for (unsigned o2 = 0; o2 < 5; ++o2) for (unsigned c2 = 0; c2 < 14; ++c2) {
		if (!sw("mem2", o1 * 16 + c1, o2 * 16 + c2)) continue;
		// tape: pick index 3 (len 5) then flag 0, then n=2 records
		std::vector<uint8_t> tp = {3, 0, 1};
		auto rec = [&](unsigned o, unsigned c) { tp.push_back(uint8_t(o)); tp.push_back(uint8_t(c)); for (int i = 0; i < 8; ++i) tp.push_back(uint8_t(0x21 * (i + 1))); };
		rec(o1, c1); rec(o2, c2);
		Tape t(tp);
		try { fam_memory(t, st, nullptr); } catch (const Violation&) { Tape t2(tp); std::string tr; fam_memory(t2, st, &tr); throw; }
	}
	st.exhaustive = true;
}

void write_seeds(const std::string&) {}
