// Shared by C10/C11/C18: generator of logical PRT structures, deep comparison with a library ArtFile.
#pragma once
#include "common/verif.h"
#include "ref/ref_gfx.h"
#include "Sprite/ArtFile.h"
#include "Stream/MemoryReader.h"
#include "Stream/DynamicMemoryWriter.h"

namespace prtgen {
using namespace verif;
using refgfx::LPrt;

inline LPrt gen_lprt(Tape& t) {
	LPrt p;
	unsigned np = unsigned(t.below(4));
	for (unsigned i = 0; i < np; ++i) { std::array<std::array<uint8_t, 4>, 256> pal; uint64_t s = t.u64() | 1; for (auto& c : pal) { s ^= s << 13; s ^= s >> 7; s ^= s << 17; c = {uint8_t(s >> 8), uint8_t(s >> 16), uint8_t(s >> 24), uint8_t(s >> 32)}; } p.palettes.push_back(pal);
		refgfx::LPalHeader h; if (t.below(5) == 0) { uint32_t hl = uint32_t(t.below(64)), dl = uint32_t(t.below(4096)); h.headLen = hl; h.dataLen = dl; h.overallLen = 8 + (hl + 4) + 4 + (dl + 4); h.tagCount = t.u32(); } p.palHeaders.push_back(h); }
	unsigned ni = np ? unsigned(t.below(13)) : 0; if (np && t.below(24) == 0) ni = t.pick<unsigned>({1000, 4097, 5000});   // image tables past any chunked-read threshold
	for (unsigned i = 0; i < ni; ++i) { refgfx::LImage im; im.width = t.pick<uint32_t>({0, 1, 3, 4, 5, 31, 32, 33, 640, 0xFFFFFFFCu, 0xFFFFFFF9u}); if (t.flag()) im.width = uint32_t(t.below(2000)); im.scanLine = (im.width + 3) & ~3u; im.height = t.below(4) == 0 ? t.u32() : uint32_t(t.below(500)); im.pixelOffset = t.u32(); im.type = t.u16(); im.paletteIndex = uint16_t(t.below(np)); p.images.push_back(im); }
	unsigned na = unsigned(t.below(6));
	for (unsigned i = 0; i < na; ++i) {
		refgfx::LAnim a; a.unknown = t.u32(); for (int k = 0; k < 4; ++k) a.rect[k] = int32_t(t.u32()); a.dx = int32_t(t.u32()); a.dy = int32_t(t.u32()); a.unknown2 = t.u32();
		unsigned nf = unsigned(t.below(7));
		for (unsigned f = 0; f < nf; ++f) {
			refgfx::LFrame fr; unsigned fl = unsigned(t.below(4)); fr.opt12 = fl & 1; fr.opt34 = fl & 2; fr.unk7 = uint8_t(t.below(128));
			unsigned nl = unsigned(t.below(4)); if (t.below(6) == 0) nl = t.pick<unsigned>({0, 1, 126, 127, 64});
			fr.count7 = uint8_t(nl);
			if (fr.opt12) { fr.o1 = t.u8(); fr.o2 = t.u8(); } if (fr.opt34) { fr.o3 = t.u8(); fr.o4 = t.u8(); }
			for (unsigned l = 0; l < nl; ++l) fr.layers.push_back({t.u16(), t.u8(), t.u8(), int16_t(t.u16()), int16_t(l)});
			a.frames.push_back(fr);
		}
		unsigned nu = unsigned(t.below(6)); if (t.below(24) == 0) nu = t.pick<unsigned>({300, 4097}); for (unsigned u = 0; u < nu; ++u) a.unknownContainer.push_back({t.u32(), uint32_t(u), 7u, t.u32()});
		p.anims.push_back(a);
	}
	p.unknownAnimationCount = t.below(3) == 0 ? t.u32() : uint32_t(t.below(10));
	return p;
}

inline std::vector<uint8_t> write_art(const OP2Utility::ArtFile& a) { OP2Utility::Stream::DynamicMemoryWriter w; a.Write(w); std::vector<uint8_t> out(w.Length()); auto r = w.GetReader(); r.Read(out.data(), out.size()); return out; }
inline OP2Utility::ArtFile read_art(const std::vector<uint8_t>& v) {
	uint8_t* heap = static_cast<uint8_t*>(malloc(v.size() ? v.size() : 1)); struct F { uint8_t* p; ~F() { free(p); } } g{heap};
	if (!v.empty()) memcpy(heap, v.data(), v.size());
	if (verif::fnv1a(v.data(), v.size()) & 1) return OP2Utility::ArtFile::Read(OP2Utility::Stream::MemoryReader(heap, v.size()));   // the overload taking a temporary stream
	OP2Utility::Stream::MemoryReader r(heap, v.size()); return OP2Utility::ArtFile::Read(r);
}

inline void compare(const OP2Utility::ArtFile& a, const LPrt& p, const std::string& ctx) {
	V_CHECK(a.palettes.size() == p.palettes.size(), ctx << ": " << a.palettes.size() << " palettes != " << p.palettes.size());
	for (size_t i = 0; i < p.palettes.size(); ++i) for (size_t c = 0; c < 256; ++c) { auto& x = a.palettes[i][c]; auto& y = p.palettes[i][c]; V_CHECK(x.red == y[0] && x.green == y[1] && x.blue == y[2] && x.alpha == y[3], ctx << ": palette " << i << " colour " << c << " differs (memory must be red-green-blue, file blue-green-red)"); }
	V_CHECK(a.imageMetas.size() == p.images.size(), ctx << ": image count");
	for (size_t i = 0; i < p.images.size(); ++i) { auto& x = a.imageMetas[i]; auto& y = p.images[i]; uint16_t ty; std::memcpy(&ty, &x.type, 2);
		V_CHECK(x.scanLineByteWidth == y.scanLine && x.pixelDataOffset == y.pixelOffset && x.height == y.height && x.width == y.width && ty == y.type && x.paletteIndex == y.paletteIndex, ctx << ": image " << i << " differs"); }
	V_CHECK(a.animations.size() == p.anims.size(), ctx << ": animation count " << a.animations.size() << " != " << p.anims.size());
	V_CHECK(a.unknownAnimationCount == p.unknownAnimationCount, ctx << ": unknown animation count");
	for (size_t i = 0; i < p.anims.size(); ++i) {
		auto& x = a.animations[i]; auto& y = p.anims[i];
		V_CHECK(x.unknown == y.unknown && x.selectionRect.x1 == y.rect[0] && x.selectionRect.y1 == y.rect[1] && x.selectionRect.x2 == y.rect[2] && x.selectionRect.y2 == y.rect[3] && x.pixelDisplacement.x == y.dx && x.pixelDisplacement.y == y.dy && x.unknown2 == y.unknown2, ctx << ": animation " << i << " header differs");
		V_CHECK(x.frames.size() == y.frames.size(), ctx << ": animation " << i << " frame count");
		for (size_t f = 0; f < y.frames.size(); ++f) {
			auto& fx = x.frames[f]; auto& fy = y.frames[f];
			V_CHECK(fx.layerMetadata.count == fy.count7 && bool(fx.layerMetadata.bReadOptionalData) == fy.opt12 && fx.unknownBitfield.count == fy.unk7 && bool(fx.unknownBitfield.bReadOptionalData) == fy.opt34, ctx << ": animation " << i << " frame " << f << " flag bytes differ");
			V_CHECK(fx.optional1 == fy.o1 && fx.optional2 == fy.o2 && fx.optional3 == fy.o3 && fx.optional4 == fy.o4, ctx << ": animation " << i << " frame " << f << " optional bytes " << int(fx.optional1) << "," << int(fx.optional2) << "," << int(fx.optional3) << "," << int(fx.optional4) << " != " << int(fy.o1) << "," << int(fy.o2) << "," << int(fy.o3) << "," << int(fy.o4));
			V_CHECK(fx.layers.size() == fy.layers.size(), ctx << ": animation " << i << " frame " << f << " has " << fx.layers.size() << " layers, file has " << fy.layers.size());
			V_CHECK(fx.layers.size() == fx.layerMetadata.count, ctx << ": per-frame layer count disagrees with the layer list");
			for (size_t l = 0; l < fy.layers.size(); ++l) V_CHECK(fx.layers[l].bitmapIndex == fy.layers[l].bitmapIndex && fx.layers[l].unknown == fy.layers[l].unknown && fx.layers[l].frameIndex == fy.layers[l].frameIndex && fx.layers[l].pixelOffset.x == fy.layers[l].x && fx.layers[l].pixelOffset.y == fy.layers[l].y, ctx << ": layer differs");
		}
		V_CHECK(x.unknownContainer.size() == y.unknownContainer.size(), ctx << ": unknown container size");
		for (size_t u = 0; u < y.unknownContainer.size(); ++u) V_CHECK(x.unknownContainer[u].unknown1 == y.unknownContainer[u][0] && x.unknownContainer[u].unknown2 == y.unknownContainer[u][1] && x.unknownContainer[u].unknown3 == y.unknownContainer[u][2] && x.unknownContainer[u].unknown4 == y.unknownContainer[u][3], ctx << ": unknown container entry differs");
	}
}

// the format's cross-field rules in 64-bit arithmetic
inline void cross_field(const OP2Utility::ArtFile& a, const std::string& ctx) {
	for (size_t i = 0; i < a.imageMetas.size(); ++i) {
		V_CHECK(a.imageMetas[i].paletteIndex < a.palettes.size(), ctx << ": image " << i << " palette index " << a.imageMetas[i].paletteIndex << " with " << a.palettes.size() << " palettes");
		uint64_t want = (uint64_t(a.imageMetas[i].width) + 3) & ~uint64_t(3);
		V_CHECK(uint64_t(a.imageMetas[i].scanLineByteWidth) == want, ctx << ": image " << i << " scan line " << a.imageMetas[i].scanLineByteWidth << " is not width " << a.imageMetas[i].width << " rounded up to four (" << want << ")");
	}
	for (auto& an : a.animations) for (auto& f : an.frames) V_CHECK(f.layers.size() == f.layerMetadata.count, ctx << ": frame layer count rule");
}

inline std::string render(const LPrt& p) {
	size_t frames = 0, layers = 0; for (auto& a : p.anims) { frames += a.frames.size(); for (auto& f : a.frames) layers += f.layers.size(); }
	return "{\"palettes\":" + std::to_string(p.palettes.size()) + ",\"images\":" + std::to_string(p.images.size()) + ",\"animations\":" + std::to_string(p.anims.size()) + ",\"frames\":" + std::to_string(frames) + ",\"layers\":" + std::to_string(layers) + "}";
}
} // namespace prtgen
