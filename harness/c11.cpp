// C11 — bitmap, tileset and PRT loaders are safe on arbitrary bytes; returned objects are safe to use.
#include "prt_common.h"
#include "Bitmap/BitmapFile.h"
#include "Sprite/TilesetLoader.h"
#include "Sprite/SpriteLoader.h"
#include "Stream/FileReader.h"
#include <climits>
#include <memory>

using namespace verif;
using namespace OP2Utility;
const char* const PROP_ID = "C11";

namespace {
enum Loader { LBmpReader, LTileset, LPrt };
const uint32_t bnd[] = {0, 1, 2, 3, 4, 7, 8, 9, 16, 31, 32, 33, 40, 54, 64, 255, 256, 257, 1024, 0x7FFF, 0x8000, 0xFFFF, 0x10000, 0x7FFFFFE0u, 0x7FFFFFFFu, 0x80000000u, 0x80000001u, 0xFFFFFFE0u, 0xFFFFFFF8u, 0xFFFFFFFCu, 0xFFFFFFFFu};

struct Heap { uint8_t* p; size_t n; explicit Heap(const std::vector<uint8_t>& v) : p(static_cast<uint8_t*>(malloc(v.size() ? v.size() : 1))), n(v.size()) { if (n) memcpy(p, v.data(), n); } ~Heap() { free(p); } };

void bitmap_followups(BitmapFile& b, Stats& st, uint32_t plan) {
	// every public operation on a returned object must itself be safe (it may throw)
	// |INT32_MIN| is not representable: every row-count computation on such an object (std::abs, *= -1) is undefined arithmetic
	// that this compiler does not instrument, so it is stated as an oracle instead of waiting for the watchdog
	V_CHECK(b.imageHeader.height != INT32_MIN, "loader returned a bitmap of height INT32_MIN; AbsoluteHeight/InvertScanLines/WriteIndexed on it negate INT32_MIN (undefined arithmetic)");
	// rows of zero bytes: the operations terminate but take time proportional to the declared row count; not explored beyond 2^22 rows
	if (b.pixels.empty() && b.imageHeader.height != INT32_MIN && uint64_t(b.imageHeader.height < 0 ? -int64_t(b.imageHeader.height) : b.imageHeader.height) > (1u << 22)) { st.cls("followups:skipped_huge_empty_rowcount"); return; }
	guarded([&] { b.Validate(); });
	guarded([&] { (void)b.AbsoluteHeight(); });
	guarded([&] { (void)b.GetScanLineOrientation(); });
	guarded([&] { Stream::DynamicMemoryWriter w; b.WriteIndexed(w); });
	if (plan & 1) guarded([&] { b.WriteIndexed(scratch_path("c11_out.bmp")); });
	guarded([&] { BitmapFile c = b; c.InvertScanLines(); c.InvertScanLines(); });
	guarded([&] { BitmapFile c = b; c.SwapRedAndBlue(); });
	guarded([&] { Stream::DynamicMemoryWriter w; Tileset::WriteCustomTileset(w, b); });
	guarded([&] { b.VerifyIndexedPaletteSizeDoesNotExceedBitCount(); b.VerifyPixelSizeMatchesImageDimensionsWithPitch(); });
	if (plan & 2) guarded([&] { b.InvertScanLines(); Stream::DynamicMemoryWriter w; b.WriteIndexed(w); });
	st.cls("followups:bitmap");
}

void prt_followups(ArtFile& a, Stats& st, uint32_t plan) {
	guarded([&] { Stream::DynamicMemoryWriter w; a.Write(w); });
	size_t n = a.imageMetas.size();
	for (size_t i : {size_t(0), n ? n - 1 : 0, n, n + 1, size_t(~0ull)}) {
		Out o = guarded([&] { a.VerifyImageIndexInBounds(i); });
		if (i >= n) V_CHECK(o == Out::Err, "VerifyImageIndexInBounds(" << i << ") accepted with " << n << " images");
		else V_CHECK(o == Out::Ok, "VerifyImageIndexInBounds(" << i << ") refused with " << n << " images");
	}
	// sprite extraction by every index 0..count+1 against pixel files of several lengths
	auto shared = std::make_shared<ArtFile>(a);
	size_t lens[4] = {0, 100, 14 + 40 + 1024 + 64, 14 + 40 + 1024 + 70000};
	std::string pix = scratch_path("c11_pix.bmp"), out = scratch_path("c11_sprite.bmp");
	std::vector<size_t> idxs; for (size_t i = 0; i < n && i < 20; ++i) idxs.push_back(i);
	// and the records an extraction would be most dangerous for, wherever they sit in the table: a palette index at or beyond the palette count
	for (size_t i = 0, found = 0; i < n && found < 6; ++i) if (a.imageMetas[i].paletteIndex >= a.palettes.size()) { idxs.push_back(i); ++found; }
	if (n) idxs.push_back(n - 1);
	idxs.push_back(n); idxs.push_back(n + 1); idxs.push_back(size_t(~0ull));
	for (unsigned li = 0; li < 4; ++li) {
		if (!((plan >> li) & 1) && li != 2) continue;
		std::vector<uint8_t> pb(lens[li]); for (size_t k = 0; k < pb.size(); ++k) pb[k] = uint8_t(k * 11 + li);
		write_file(pix, pb);
		SpriteLoader loader(pix, shared);
		for (size_t idx : idxs) {
			Out o = guarded([&] { loader.ExtractImage(idx, out); });
			if (idx >= n) V_CHECK(o == Out::Err, "ExtractImage(" << idx << ") accepted with " << n << " images");
		}
	}
	st.cls("followups:prt");
}

// returns true when the loader accepted
// plan bit 0x100: go through the file-backed entry points (ReadIndexed(filename), ReadTileset over a FileReader, ArtFile::Read(filename))
bool load_case(Loader l, const std::vector<uint8_t>& v, Stats& st, uint32_t plan, const char* origin) {
	Heap h(v);
	bool ok = false;
	bool viaFile = (plan & 0x100) != 0;
	std::string fp;
	if (viaFile) { fp = scratch_path("c11_in.bin"); write_file(fp, v); st.cls("via_file_entry_point"); }
	try {
		if (l == LPrt) { ArtFile a; if (viaFile) a = ArtFile::Read(fp); else { Stream::MemoryReader r(h.p, h.n); a = ArtFile::Read(r); } ok = true; /* whether an accepted structure obeys the cross-field rules is C10's question; here: every follow-up on it is safe */ prt_followups(a, st, plan); }
		else {
			BitmapFile b;
			if (viaFile) { if (l == LBmpReader) b = BitmapFile::ReadIndexed(fp); else { Stream::FileReader fr(fp); b = Tileset::ReadTileset(fr); } }
			else { Stream::MemoryReader r(h.p, h.n); b = l == LBmpReader ? BitmapFile::ReadIndexed(r) : Tileset::ReadTileset(r); }
			ok = true; bitmap_followups(b, st, plan);
		}
	} catch (const Violation&) { throw; }
	catch (const std::exception&) { if (ok) throw Violation{"exception escaped a follow-up guard"}; }
	st.cls(std::string(origin) + (l == LPrt ? ":prt" : l == LTileset ? ":tileset" : ":bmp") + (ok ? ":accepted" : ":rejected"));
	return ok;
}

std::vector<uint8_t> seed_file(Loader l, unsigned which, std::vector<size_t>* fields) {
	if (l == LBmpReader) {
		refgfx::LBmp b; b.depth = which % 3 == 0 ? 8 : which % 3 == 1 ? 4 : 1; b.width = 5 + int32_t(which); b.height = which & 1 ? -3 : 2;
		b.usedColors = which == 2 ? 2 : 0; size_t e = b.usedColors ? b.usedColors : (1u << b.depth); for (size_t i = 0; i < e; ++i) b.palette.push_back({uint8_t(i), 2, 3, 4});
		b.pixels.assign(size_t(refgfx::pitch(uint64_t(b.width), b.depth) * (b.height < 0 ? -b.height : b.height)), 0x5A);
		return refgfx::encode_bmp(b, fields);
	}
	if (l == LTileset) {
		if (which & 1) { refgfx::LBmp b; b.depth = 8; b.width = 32; b.height = which == 3 ? -32 : 32; size_t entries = which == 3 ? 7 : 256; b.usedColors = which == 3 ? 7 : 0;   // seed 3: partial colour table, top-down
			for (size_t i = 0; i < entries; ++i) b.palette.push_back({uint8_t(i), 0, 0, 0}); b.pixels.assign(32 * 32, 1); return refgfx::encode_bmp(b, fields); }
		std::vector<std::array<uint8_t, 4>> pal(256); for (size_t i = 0; i < 256; ++i) pal[i] = {uint8_t(i), 1, 2, 3};
		if (fields) *fields = refgfx::tileset_fields();
		return refgfx::encode_tileset(32 * (which % 3), pal, std::vector<uint8_t>(size_t(32 * (which % 3)) * 32, 7));
	}
	std::vector<uint8_t> tp(300); for (size_t i = 0; i < tp.size(); ++i) tp[i] = uint8_t(i * 53 + which * 17 + 1);
	Tape t(tp); refgfx::LPrt p = prtgen::gen_lprt(t);
	for (auto& h : p.palHeaders) h = refgfx::LPalHeader();   // canonical section lengths: the plainest well-formed file
	if (which == 0) { p = refgfx::LPrt(); }
	if (fields) fields->clear();
	return refgfx::encode_prt(p, fields);
}

// pitch exactly as a 64-bit size_t computation on a sign-extended width would give it (independent restatement)
uint64_t wrapped_pitch(int32_t width, unsigned depth) { uint64_t w = uint64_t(int64_t(width)); return (((w * depth) + 7) / 8 + 3) & ~uint64_t(3); }
} // namespace

void run_case(Tape& t, Stats& st) {
	uint8_t head = t.u8();
	Loader l = Loader((head & 0x7F) % 3);
	uint32_t plan = t.u8(); if (t.below(4) == 0) plan |= 0x100;
	if (head & 0x80) { auto v = t.rest(); if (load_case(l, v, st, plan, "raw")) st.nt(fnv1a(v.data(), v.size(), l)); else if (v.size() > 14) st.nt(fnv1a(v.data(), v.size(), l) ^ 1); return; }
	std::vector<size_t> fields; unsigned which = t.u8() % 4;
	std::vector<uint8_t> v = seed_file(l, which, &fields);
	unsigned k = 1 + unsigned(t.below(3));
	for (unsigned i = 0; i < k; ++i) {
		switch (t.below(8)) {
		case 0: case 1: case 2: { if (fields.empty()) break; size_t at = fields[t.below(fields.size())]; if (at + 4 > v.size()) break; uint32_t old = refvol::get32(v, at); uint32_t nv = t.below(4) == 0 ? (t.flag() ? old + 1 : old - 1) : t.below(5) == 0 ? t.u32() : bnd[t.below(sizeof bnd / 4)]; for (int j = 0; j < 4; ++j) v[at + j] = uint8_t(nv >> (8 * j)); break; }
		case 3: if (!v.empty()) v.resize(t.below(v.size())); break;
		case 4: if (!v.empty()) v[t.below(v.size())] = t.u8(); break;
		case 5: { auto ex = t.bytes(t.below(40)); v.insert(v.end(), ex.begin(), ex.end()); break; }
		case 6: if (v.size() >= 54 && v[0] == 'B') { uint64_t sz = wrapped_pitch(int32_t(refvol::get32(v, 18)), refvol::get16(v, 28)) * uint64_t(int32_t(refvol::get32(v, 22)) < 0 ? -int64_t(int32_t(refvol::get32(v, 22))) : int32_t(refvol::get32(v, 22))); for (int j = 0; j < 4; ++j) v[34 + j] = uint8_t(sz >> (8 * j)); } break;   // stated image size made to agree with the (possibly changed) dimensions
		default: if (v.size() >= 54 && v[0] == 'B') { uint32_t po = refvol::get32(v, 10) + uint32_t(t.below(3)) * 4; for (int j = 0; j < 4; ++j) v[2 + j] = uint8_t(po >> (8 * j)); if (t.flag() && po <= v.size()) v.resize(po); } break;   // file-size field pulled down to the pixel offset
		}
	}
	// PRT, one case in four: a generated structure in which one or two image records combine a degenerate size (0 or 1 in width and/or height)
	// with a palette index at or beyond the palette count and a scan line that suits the width or is 0 - a rule that looks at one field must
	// not be switched off by the value of another
	if (l == LPrt && t.below(4) == 0) {
		refgfx::LPrt p = prtgen::gen_lprt(t); if (p.palettes.size() > 2) { p.palettes.resize(2); p.palHeaders.resize(2); } if (p.images.size() > 40) p.images.resize(40);
		if (p.images.empty()) p.images.push_back({4, 0, 1, 4, 0, 0});
		for (unsigned r = 0; r < 1 + unsigned(t.below(2)); ++r) { auto& im = p.images[t.below(p.images.size())]; im.width = uint32_t(t.below(3)); im.height = uint32_t(t.below(3)); im.scanLine = t.flag() ? ((im.width + 3) & ~3u) : 0; unsigned np = unsigned(p.palettes.size()); im.paletteIndex = t.pick<uint16_t>({uint16_t(np), uint16_t(np + 1), uint16_t(0xFFFF), uint16_t(np ? np - 1 : 0), uint16_t(0x8000)}); im.pixelOffset = uint32_t(t.below(200)); }
		for (auto& im : p.images) if (im.paletteIndex >= p.palettes.size() && p.palettes.size() && t.below(3)) { /* keep */ }
		v = refgfx::encode_prt(p); st.cls("prt:degenerate_record_with_foreign_palette_index");
	}
	if (st.want_sample()) st.sample(std::string("{\"loader\":\"") + (l == LPrt ? "prt" : l == LTileset ? "tileset" : "bmp") + "\",\"seed\":" + std::to_string(which) + ",\"bytes\":" + std::to_string(v.size()) + ",\"head\":\"" + hex(v, 32) + "\"}");
	bool ok = load_case(l, v, st, plan, "mutated");
	if (ok || v.size() > 14) st.nt(fnv1a(v.data(), v.size(), l * 7 + ok));
}

void run_sweep(Stats& st) {
	for (unsigned li = 0; li < 3; ++li) for (unsigned which = 0; which < 4; ++which) {
		Loader l = Loader(li); std::vector<size_t> fields; std::vector<uint8_t> full = seed_file(l, which, &fields);
		// Whether a well-formed file must be ACCEPTED is the business of C08/C09/C10, not of this property (a loader that refuses more is as safe as before):
		// a refused seed is counted, not reported; the seeds are as plain as the formats allow so that this stays rare
		if (sw("intact", li, which)) { if (!load_case(l, full, st, 0xFF, "intact")) st.cls("intact_seed_refused(not claimed here)"); }
		if (sw("intact_file", li, which)) { if (!load_case(l, full, st, 0x1FF, "intact_file")) st.cls("intact_seed_refused(not claimed here)"); }
		for (size_t n = 0; n < full.size(); ++n) {
			if (full.size() > 3000 && n % 7 != 0 && n + 40 < full.size() && n > 120) continue;   // long pixel/palette bodies: every 7th byte
			if (!sw("prefix", li, which, n)) continue;
			std::vector<uint8_t> p(full.begin(), full.begin() + n);
			V_CHECK(!load_case(l, p, st, 0, "prefix"), "proper prefix (" << n << " of " << full.size() << " bytes) of a valid file was accepted by loader " << li);
			if (n + 64 >= full.size() || n < 80 || n % 5 == 0) { V_CHECK(!load_case(l, p, st, 0x100, "prefix_file"), "proper prefix (" << n << " of " << full.size() << " bytes) of a valid file was accepted by loader " << li << " through its file-backed entry point"); ++st.evaluations; }
		}
		for (size_t fi = 0; fi < fields.size() && fi < 60; ++fi) for (size_t vi = 0; vi < sizeof bnd / 4 + 2; ++vi) {
			if (!sw("field", li * 4 + which, fi, vi)) continue;
			std::vector<uint8_t> b = full; size_t at = fields[fi]; if (at + 4 > b.size()) continue; uint32_t old = refvol::get32(full, at);
			uint32_t nv = vi < sizeof bnd / 4 ? bnd[vi] : vi == sizeof bnd / 4 ? old + 1 : old - 1;
			for (int j = 0; j < 4; ++j) b[at + j] = uint8_t(nv >> (8 * j));
			load_case(l, b, st, uint32_t(vi), "field");
		}
	}
	// constructed wrap-around bitmaps: (negative width, height) pairs whose pitch x |height| is small modulo 2^64, with exactly that much pixel data
	for (unsigned depth : {1u, 4u, 8u}) {
		std::vector<int32_t> widths; for (int32_t w = -1; w >= -64; --w) widths.push_back(w); for (int k = 0; k < 4; ++k) widths.push_back(INT32_MIN + k); widths.push_back(-65536); widths.push_back(-0x10000000);
		std::vector<int32_t> heights; for (int32_t hh = 1; hh <= 64; ++hh) { heights.push_back(hh); heights.push_back(-hh); } for (int k = 7; k <= 30; ++k) { heights.push_back(1 << k); heights.push_back(-(1 << k)); } heights.push_back(INT32_MIN); heights.push_back(INT32_MAX); heights.push_back(0);
		for (int32_t w : widths) {
			if (!sw("wrap_bmp", depth, uint64_t(uint32_t(w)))) continue;
			for (int32_t hh : heights) {
				uint64_t P = wrapped_pitch(w, depth); uint64_t ah = hh == INT32_MIN ? 0x80000000ull : uint64_t(hh < 0 ? -int64_t(hh) : hh);
				for (uint64_t need : {P * ah, P * uint64_t(int64_t(hh))}) {      // |h| as 64-bit magnitude, or as a sign-extended int (abs overflow)
					if (need > 4096) continue;
					refgfx::LBmp b; b.depth = depth; b.width = w; b.height = hh; for (size_t i = 0; i < (size_t(1) << depth); ++i) b.palette.push_back({uint8_t(i), 0, 0, 0});
					b.pixels.assign(size_t(need), 0x11);
					load_case(LBmpReader, refgfx::encode_bmp(b), st, 0xFF, "wrap");
					++st.evaluations;
				}
			}
		}
	}
	// positive dimensions whose pitch x |height| reaches 2^32 and is small modulo 2^32, carrying exactly that many pixel bytes
	// (a size cross-check evaluated in 32 bits passes; flips and writes would then walk billions of bytes of a tiny array)
	for (unsigned depth : {1u, 4u, 8u}) for (unsigned a = 2; a <= 24; ++a) for (int extra = 0; extra <= 1; ++extra) for (int sign = 0; sign < 2; ++sign) {
		if (32 - a > 30) continue;
		if (!sw("wrap32_bmp", depth, a, uint64_t(extra), uint64_t(sign))) continue;
		uint64_t P = uint64_t(1) << a;                       // pitch, a power of two >= 4
		uint64_t widthPx = P * 8 / depth;                  // width whose rows are exactly P bytes
		if (widthPx > 0x7FFFFFFFull) continue;
		int64_t hmag = (int64_t(1) << (32 - a)) + extra;   // P*h = 2^32 (+P)
		refgfx::LBmp b; b.depth = depth; b.width = int32_t(widthPx); b.height = int32_t(sign ? -hmag : hmag);
		for (size_t i = 0; i < (size_t(1) << depth); ++i) b.palette.push_back({uint8_t(i), 9, 9, 0});
		uint64_t need = (P * uint64_t(hmag)) & 0xFFFFFFFFull; if (need > 70000) continue;
		b.pixels.assign(size_t(need), 0x33);
		load_case(LBmpReader, refgfx::encode_bmp(b), st, 0xFF, "wrap32");
		if (depth == 8 && widthPx == 32) load_case(LTileset, refgfx::encode_bmp(b), st, 0xFF, "wrap32");   // tileset-shaped standard bitmap
	}
	// heights INT32_MIN / extreme with positive widths (abs overflow), zero-size pixel arrays
	for (int32_t hh : {INT32_MIN, INT32_MIN + 1, INT32_MAX, -1, 0}) for (int32_t w : {0, 1, 32}) for (unsigned depth : {1u, 8u}) {
		if (!sw("extreme_h", uint64_t(uint32_t(hh)), uint64_t(w), depth)) continue;
		refgfx::LBmp b; b.depth = depth; b.width = w; b.height = hh; for (size_t i = 0; i < (size_t(1) << depth); ++i) b.palette.push_back({1, 2, 3, 4});
		uint64_t need = refgfx::pitch(uint64_t(w), depth) * (hh == INT32_MIN ? 0x80000000ull : uint64_t(hh < 0 ? -int64_t(hh) : hh));
		b.pixels.assign(size_t(need > 4096 ? 0 : need), 0x22);
		load_case(LBmpReader, refgfx::encode_bmp(b), st, 0xFF, "extreme");
	}
	// custom tileset pixel heights around the sign boundary
	{ std::vector<std::array<uint8_t, 4>> pal(256);
	  for (uint32_t ph : {0x7FFFFFE0u, 0x80000000u, 0x80000020u, 0xFFFFFFE0u, 0xFFFFFFC0u, 0x08000000u, 0x08000020u}) { if (!sw("tileset_height", ph)) continue; std::vector<uint8_t> v = refgfx::encode_tileset(0, pal, {}); for (int j = 0; j < 4; ++j) { v[24 + j] = uint8_t(ph >> (8 * j)); uint32_t dl = 32 * ph; v[1092 + j] = uint8_t(dl >> (8 * j)); } auto tail = std::vector<uint8_t>(size_t((32 * ph) <= 4096 ? 32 * ph : 64), 3); v.insert(v.end(), tail.begin(), tail.end()); load_case(LTileset, v, st, 0xFF, "tileset_height"); } }
	// PRT images whose fields satisfy one rule only because another field is degenerate: width 0..4 x scan line x palette index at/after the
	// palette count x 0..1 palettes - refused, or (if accepted) every follow-up incl. sprite extraction by every index is safe
	for (unsigned np = 0; np < 2; ++np) for (uint32_t width : {0u, 1u, 4u}) for (uint32_t pidx : {0u, 1u, 2u, 0xFFFFu}) for (uint32_t scan : {0u, 4u}) for (uint32_t height : {3u, 0u, 1u}) {
		if (!sw("prt_degenerate_image", np, width * 16 + height, pidx, scan)) continue;
		refgfx::LPrt p; for (unsigned i = 0; i < np; ++i) { std::array<std::array<uint8_t, 4>, 256> pal{}; p.palettes.push_back(pal); p.palHeaders.push_back({}); }
		p.images.push_back({scan, 0, height, width, 0, uint16_t(pidx)}); p.images.push_back({4, 0, 1, 4, 0, uint16_t(np ? 0 : pidx)});
		load_case(LPrt, refgfx::encode_prt(p), st, 0xFF, "prt_degenerate");
	}
	// PRT image tables beyond 65536 records with one foreign palette index late in the table (a validation loop with a narrow counter would
	// not reach it): refused, or every follow-up - extraction of that very record included - is safe
	for (uint32_t n : {65537u, 70000u, 131073u}) for (uint32_t r : {n - 1, 65536u, 1u}) {
		if (!sw("prt_many_images", n, r)) continue;
		refgfx::LPrt p; std::array<std::array<uint8_t, 4>, 256> pal{}; p.palettes = {pal}; p.palHeaders = {{}};
		for (uint32_t i = 0; i < n; ++i) p.images.push_back({4, i % 50, 1, 3, 0, 0});
		p.images[r].paletteIndex = uint16_t(r & 1 ? 0xFFFF : 1);
		load_case(LPrt, refgfx::encode_prt(p), st, 0x4, "prt_many_images");
	}
	// a STATED image size that agrees with the dimensions while the file-size field / the file itself carry fewer (or no) pixel bytes: whatever
	// is accepted must be safe to flip and save (the field a loader checks and the quantity that sizes its pixel container must not come apart)
	for (unsigned depth : {8u, 4u, 1u}) for (unsigned dim = 0; dim < 4; ++dim) for (unsigned variant = 0; variant < 7; ++variant) {
		if (!sw("stated_size", depth, dim, variant)) continue;
		const int32_t dims[4][2] = {{32, 65536}, {32, -64}, {5, 3}, {33, -2}};
		refgfx::LBmp b; b.depth = depth; b.width = dims[dim][0]; b.height = dims[dim][1]; for (size_t i = 0; i < (size_t(1) << depth); ++i) b.palette.push_back({uint8_t(i), 9, 8, 7});
		uint64_t rows = uint64_t(b.height < 0 ? -int64_t(b.height) : b.height), full = refgfx::pitch(uint64_t(b.width), depth) * rows;
		b.pixels.assign(size_t(full), 0x33); b.imageSize = uint32_t(full);
		std::vector<uint8_t> v = refgfx::encode_bmp(b); size_t po = refvol::get32(v, 10);
		auto setSize = [&](uint32_t x) { for (int j = 0; j < 4; ++j) v[2 + j] = uint8_t(x >> (8 * j)); };
		switch (variant) {
		case 0: break;                                                            // intact, stated size
		case 1: v.resize(po); setSize(uint32_t(po)); break;                       // no pixel bytes, size field says so
		case 2: v.resize(po); break;                                              // no pixel bytes, size field still claims them
		case 3: v.resize(po + size_t(full / 2)); setSize(uint32_t(v.size())); break;
		case 4: v.resize(po + size_t(full / 2)); break;
		case 5: v.resize(v.size() - size_t(refgfx::pitch(uint64_t(b.width), depth))); setSize(uint32_t(v.size())); break;   // one row short
		default: setSize(uint32_t(po)); break;                                    // all pixel bytes present, size field denies them
		}
		bool ok = load_case(LBmpReader, v, st, 0xFF, "stated_size");
		if (variant == 0) V_CHECK(ok, "valid bitmap with a stated image size refused (depth " << depth << ", " << b.width << "x" << b.height << ")");
		if (depth == 8 && b.width == 32) load_case(LTileset, v, st, 0xFF, "stated_size");
	}
	// rows wider than any staging buffer a writer might use (pitch 16 KiB, 64 KiB, 128 KiB and one more byte): load, then every follow-up must terminate
	for (unsigned depth : {8u, 4u, 1u}) for (uint32_t pitchBytes : {16384u, 16388u, 65536u, 65540u, 131076u}) for (int32_t height : {1, -2}) {
		if (!sw("wide_rows", depth, pitchBytes, uint64_t(height + 4))) continue;
		refgfx::LBmp b; b.depth = depth; b.width = int32_t(uint64_t(pitchBytes) * 8 / depth - (pitchBytes % 8 ? 1 : 0)); b.height = height; for (size_t i = 0; i < (size_t(1) << depth); ++i) b.palette.push_back({uint8_t(i), 1, 2, 3});
		b.pixels.assign(size_t(refgfx::pitch(uint64_t(b.width), depth) * uint64_t(height < 0 ? -height : height)), 0x11);
		if (!load_case(LBmpReader, refgfx::encode_bmp(b), st, 0xFF, "wide_rows")) st.cls("valid_file_refused(not claimed here)");
	}
	for (uint32_t width : {16385u, 70000u}) { if (!sw("prt_wide_image", width)) continue;
		refgfx::LPrt p; std::array<std::array<uint8_t, 4>, 256> pal{}; p.palettes.push_back(pal); p.palHeaders.push_back({});
		p.images.push_back({(width + 3) & ~3u, 0, 1, width, 0, 0}); p.images.push_back({4, 0, 1, 4, 0, 0});
		if (!load_case(LPrt, refgfx::encode_prt(p), st, 0xFF, "prt_wide_image")) st.cls("valid_file_refused(not claimed here)"); }
	// PRT counts near 2^32 and every image index on small files
	for (unsigned which = 0; which < 4; ++which) { std::vector<size_t> f; auto full = seed_file(LPrt, which, &f); for (size_t fi = 0; fi < f.size() && fi < 40; ++fi) for (uint32_t nv : {0xFFFFFFFFu, 0xFFFFFFFEu, 0x80000000u, 0x10000000u, 0x0CCCCCCDu, 0x15555556u}) { if (!sw("prt_count", which, fi, nv)) continue; std::vector<uint8_t> b = full; size_t at = f[fi]; if (at + 4 > b.size()) continue; for (int j = 0; j < 4; ++j) b[at + j] = uint8_t(nv >> (8 * j)); load_case(LPrt, b, st, 0, "prt_count"); } }
	st.exhaustive = true;
}

void write_seeds(const std::string& dir) {
	for (unsigned li = 0; li < 3; ++li) for (unsigned which = 0; which < 4; ++which) { auto b = seed_file(Loader(li), which, nullptr); if (b.size() > 1500 && li != 2) { /* keep corpus entries small where possible */ } b.insert(b.begin(), 0xFF); b.insert(b.begin(), uint8_t(0x80 | li)); write_file(dir + "/l" + std::to_string(li) + "_" + std::to_string(which), b); }
}
