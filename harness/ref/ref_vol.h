// Independent description of the VOL archive format: encoder, strict decoder, lenient locator.
// Written from the format description (tags, little-endian fields); no library type in sight.
#pragma once
#include <cstdint>
#include <string>
#include <vector>
#include <algorithm>
#include <functional>
#include <sstream>

namespace refvol {

inline void put32(std::vector<uint8_t>& v, uint32_t x) { for (int i = 0; i < 4; ++i) v.push_back(uint8_t(x >> (8 * i))); }
inline void put16(std::vector<uint8_t>& v, uint16_t x) { v.push_back(uint8_t(x)); v.push_back(uint8_t(x >> 8)); }
inline void puttag(std::vector<uint8_t>& v, const char* t) { for (int i = 0; i < 4; ++i) v.push_back(uint8_t(t[i])); }
inline uint32_t get32(const std::vector<uint8_t>& v, size_t at) { return uint32_t(v[at]) | uint32_t(v[at + 1]) << 8 | uint32_t(v[at + 2]) << 16 | uint32_t(v[at + 3]) << 24; }
inline uint16_t get16(const std::vector<uint8_t>& v, size_t at) { return uint16_t(v[at] | v[at + 1] << 8); }
inline bool tagat(const std::vector<uint8_t>& v, size_t at, const char* t) { return at + 4 <= v.size() && v[at] == uint8_t(t[0]) && v[at + 1] == uint8_t(t[1]) && v[at + 2] == uint8_t(t[2]) && v[at + 3] == uint8_t(t[3]); }
inline uint32_t pad4(uint32_t x) { return (x + 3u) & ~3u; }

const uint16_t CompUncompressed = 0x100, CompLZH = 0x103;
const uint32_t PadFlag = 0x80000000u;

inline int lower(int c) { return (c >= 'A' && c <= 'Z') ? c + 32 : c; }
// Where bytes >= 0x80 rank relative to ASCII and to each other is not fixed by any statement ("case-insensitive order"): comparing plain chars puts
// them before ASCII, unsigned chars after it, and ::tolower on a plain char puts 0x80..0xFE after ASCII but 0xFF (== EOF) before everything.  All of
// these are case-insensitive orders under which a binary search by the same rule finds every member.  The reference comparator icmp() ranks them
// unsigned; listings WRITTEN BY THE LIBRARY are judged by order_consistent(): strictly ascending under SOME byte ranking that folds ASCII case, keeps
// the ASCII bytes in their numeric order and puts a name after its proper prefixes.
inline int key(unsigned char c) { return lower(c); }
// _stricmp order: compare lower-cased bytes, shorter first on a common prefix
inline int icmp(const std::string& a, const std::string& b) {
	size_t n = std::min(a.size(), b.size());
	for (size_t i = 0; i < n; ++i) {
		int x = key((unsigned char)a[i]), y = key((unsigned char)b[i]);
		if (x != y) return x < y ? -1 : 1;
	}
	return a.size() == b.size() ? 0 : (a.size() < b.size() ? -1 : 1);
}
inline bool ieq(const std::string& a, const std::string& b) { return icmp(a, b) == 0; }
inline bool has_high_byte(const std::string& s) { for (unsigned char c : s) if (c >= 0x80) return true; return false; }
// "" when the listing is strictly ascending under some case-insensitive byte order (see above), else what is wrong
inline std::string order_consistent(const std::vector<std::string>& names) {
	std::vector<std::vector<int>> adj(256);
	for (size_t k = 1; k < names.size(); ++k) {
		const std::string& a = names[k - 1]; const std::string& b = names[k]; size_t n = std::min(a.size(), b.size()), i = 0;
		while (i < n && lower((unsigned char)a[i]) == lower((unsigned char)b[i])) ++i;
		if (i == n) { if (!(a.size() < b.size())) return "names '" + a + "' and '" + b + "' are equal ignoring case, or the longer one comes before its own prefix"; continue; }
		int x = lower((unsigned char)a[i]), y = lower((unsigned char)b[i]);
		if (x < 128 && y < 128) { if (!(x < y)) return "names '" + a + "' and '" + b + "' not in ascending case-insensitive order"; }
		else adj[size_t(x)].push_back(y);
	}
	// the constraints on bytes >= 0x80 together with 0 < 1 < ... < 127 must be free of cycles
	std::vector<int> col(256, 0); bool cyc = false;
	std::function<void(int)> dfs = [&](int v) { col[size_t(v)] = 1; auto visit = [&](int w) { if (col[size_t(w)] == 1) cyc = true; else if (!col[size_t(w)]) dfs(w); }; for (int w : adj[size_t(v)]) visit(w); if (v < 127) visit(v + 1); col[size_t(v)] = 2; };
	for (int v = 0; v < 256 && !cyc; ++v) if (!col[size_t(v)]) dfs(v);
	return cyc ? "the listing is not ascending under any one ranking of its bytes >= 0x80" : "";
}

struct Member {
	std::string name;
	std::vector<uint8_t> payload;      // stored bytes (for LZH: the compressed bytes)
	uint16_t comp = CompUncompressed;
	uint32_t sizeField = 0;            // index "file size" (uncompressed length); for uncompressed == payload.size()
};

struct EncodeOpts {
	unsigned unusedSlots = 0;          // trailing index slots with name offset 0xFFFFFFFF (class alpha)
	uint32_t unusedFill = 0;           // arbitrary content of the other fields of unused slots
	unsigned indexLenExtra = 0;        // 1..13: declared index length also covers that many zero pad bytes (class beta)
	unsigned namePadWords = 0;         // extra zero words after the name table (still inside the vols section)
};

struct Extent { uint32_t blockOffset; uint32_t dataOffset; uint32_t length; };

inline std::vector<uint8_t> encode(const std::vector<Member>& ms, const EncodeOpts& o = EncodeOpts(), std::vector<Extent>* extents = nullptr) {
	uint32_t stl = 0;
	for (auto& m : ms) stl += uint32_t(m.name.size()) + 1;
	uint32_t paddedS = pad4(stl + 4) + 4 * o.namePadWords;
	uint32_t itl = 14u * uint32_t(ms.size() + o.unusedSlots);
	uint32_t declaredItl = itl + o.indexLenExtra;
	uint32_t paddedI = pad4(declaredItl);
	uint32_t first = 32 + paddedS + paddedI;
	std::vector<uint8_t> v;
	puttag(v, "VOL "); put32(v, (paddedS + paddedI + 24) | PadFlag);
	puttag(v, "volh"); put32(v, 0 | PadFlag);
	puttag(v, "vols"); put32(v, paddedS | PadFlag);
	put32(v, stl);
	for (auto& m : ms) { v.insert(v.end(), m.name.begin(), m.name.end()); v.push_back(0); }
	while (v.size() < 24 + 8 + paddedS - 8 + 8 - 8) v.push_back(0);   // = 24 + paddedS
	puttag(v, "voli"); put32(v, declaredItl | PadFlag);
	uint32_t off = first, noff = 0;
	if (extents) extents->clear();
	for (auto& m : ms) {
		put32(v, noff); put32(v, off); put32(v, m.sizeField); put16(v, m.comp);
		if (extents) extents->push_back({off, off + 8, uint32_t(m.payload.size())});
		noff += uint32_t(m.name.size()) + 1;
		off += 8 + pad4(uint32_t(m.payload.size()));
	}
	for (unsigned i = 0; i < o.unusedSlots; ++i) { put32(v, 0xFFFFFFFFu); put32(v, o.unusedFill); put32(v, o.unusedFill * 3); put16(v, uint16_t(o.unusedFill)); }
	while (v.size() < first) v.push_back(0);
	for (auto& m : ms) {
		puttag(v, "VBLK"); put32(v, uint32_t(m.payload.size()) | PadFlag);
		v.insert(v.end(), m.payload.begin(), m.payload.end());
		while (v.size() & 3) v.push_back(0);
	}
	return v;
}

struct Entry { std::string name; uint32_t nameOffset, blockOffset, size; uint16_t comp; uint32_t vblkLen; };

// Strict decoder: returns "" when the bytes are a well-formed VOL as the format describes it
// (the shape the library's writer must produce), else a description of the first deviation.
inline std::string parse_strict(const std::vector<uint8_t>& b, std::vector<Entry>& out) {
	std::ostringstream e;
	out.clear();
	if (b.size() < 32) return "file shorter than the fixed header";
	if (!tagat(b, 0, "VOL ")) return "missing 'VOL ' tag";
	uint32_t w = get32(b, 4);
	if (!(w & PadFlag)) return "'VOL ' length word lacks the 4-byte-padding flag";
	uint32_t headLen = w & ~PadFlag;
	if (!tagat(b, 8, "volh")) return "missing 'volh' tag";
	w = get32(b, 12);
	if (!(w & PadFlag)) return "'volh' lacks the padding flag";
	if ((w & ~PadFlag) != 0) return "'volh' length is not 0";
	if (!tagat(b, 16, "vols")) return "missing 'vols' tag";
	w = get32(b, 20);
	if (!(w & PadFlag)) return "'vols' lacks the padding flag";
	uint32_t sLen = w & ~PadFlag;
	if (sLen % 4) return "'vols' length not a multiple of 4";
	if (uint64_t(24) + sLen + 8 > b.size()) return "'vols' section runs past the file";
	if (sLen < 4) return "'vols' section too short for its length word";
	uint32_t stl = get32(b, 24);
	if (uint64_t(stl) + 4 > sLen) return "actual name-table length exceeds the section";
	if (sLen != pad4(stl + 4)) { e << "'vols' length " << sLen << " is not the actual length+4 (" << stl + 4 << ") padded to 4"; return e.str(); }
	for (uint32_t i = 28 + stl; i < 24 + sLen; ++i) if (b[i]) return "name-table padding not zero";
	size_t ip = 24 + size_t(sLen);
	if (!tagat(b, ip, "voli")) return "missing 'voli' tag right after the name table";
	w = get32(b, ip + 4);
	if (!(w & PadFlag)) return "'voli' lacks the padding flag";
	uint32_t iLen = w & ~PadFlag;
	if (iLen % 14) return "'voli' length not a multiple of the 14-byte entry";
	uint32_t paddedI = pad4(iLen);
	if (headLen != sLen + paddedI + 24) { e << "'VOL ' length " << headLen << " != padded tables + 24 = " << sLen + paddedI + 24; return e.str(); }
	size_t first = size_t(headLen) + 8;
	if (first > b.size()) return "header runs past the file";
	for (size_t i = ip + 8 + iLen; i < first; ++i) if (b[i]) return "index padding not zero";
	uint32_t n = iLen / 14;
	// names in index order at the recorded offsets
	uint32_t expectNameOff = 0;
	uint64_t expectBlock = first;
	for (uint32_t k = 0; k < n; ++k) {
		size_t at = ip + 8 + 14 * size_t(k);
		Entry en;
		en.nameOffset = get32(b, at); en.blockOffset = get32(b, at + 4); en.size = get32(b, at + 8); en.comp = get16(b, at + 12);
		if (en.nameOffset != expectNameOff) { e << "entry " << k << " name offset " << en.nameOffset << " != " << expectNameOff; return e.str(); }
		if (en.nameOffset >= stl) { e << "entry " << k << " name offset outside the table"; return e.str(); }
		size_t p = 28 + en.nameOffset;
		while (p < 28 + size_t(stl) && b[p]) en.name.push_back(char(b[p++]));
		if (p >= 28 + size_t(stl)) { e << "entry " << k << " name not NUL-terminated inside the table"; return e.str(); }
		expectNameOff += uint32_t(en.name.size()) + 1;
		if (en.blockOffset % 4) { e << "entry " << k << " block offset " << en.blockOffset << " not 4-aligned"; return e.str(); }
		if (en.blockOffset != expectBlock) { e << "entry " << k << " block offset " << en.blockOffset << " != contiguous position " << expectBlock; return e.str(); }
		if (uint64_t(en.blockOffset) + 8 > b.size()) { e << "entry " << k << " block header outside the file"; return e.str(); }
		if (!tagat(b, en.blockOffset, "VBLK")) { e << "entry " << k << " block lacks 'VBLK'"; return e.str(); }
		w = get32(b, en.blockOffset + 4);
		if (!(w & PadFlag)) { e << "entry " << k << " block lacks the padding flag"; return e.str(); }
		en.vblkLen = w & ~PadFlag;
		if (en.comp == CompUncompressed && en.vblkLen != en.size) { e << "entry " << k << " block length " << en.vblkLen << " != entry size " << en.size; return e.str(); }
		uint64_t end = uint64_t(en.blockOffset) + 8 + en.vblkLen;
		uint64_t pend = (end + 3) & ~uint64_t(3);
		if (pend > b.size()) { e << "entry " << k << " block runs past the file"; return e.str(); }
		for (uint64_t i = end; i < pend; ++i) if (b[i]) { e << "entry " << k << " block padding not zero"; return e.str(); }
		expectBlock = pend;
		out.push_back(en);
	}
	if (expectNameOff != stl) { e << "name table length " << stl << " != sum of names " << expectNameOff; return e.str(); }
	if (expectBlock != b.size()) { e << "last block ends at " << expectBlock << " but file has " << b.size() << " bytes"; return e.str(); }
	// binary-search order (strictly ascending, case-insensitive)
	bool hiNames = false; { std::vector<std::string> listed; for (auto& en : out) { listed.push_back(en.name); if (has_high_byte(en.name)) hiNames = true; } std::string oe = order_consistent(listed); if (!oe.empty()) { e << oe; return e.str(); } }
	// an actual binary search (bytes ranked unsigned; skipped when a name holds a byte >= 0x80, whose rank is the implementation's choice) finds every member
	for (uint32_t k = 0; k < out.size() && !hiNames; ++k) {
		std::string q = out[k].name;
		for (auto& c : q) c = (c >= 'a' && c <= 'z') ? char(c - 32) : c;
		size_t lo = 0, hi = out.size(); bool found = false;
		while (lo < hi) { size_t mid = (lo + hi) / 2; int c = icmp(out[mid].name, q); if (c == 0) { found = mid == k; break; } if (c < 0) lo = mid + 1; else hi = mid; }
		if (!found) { e << "binary search does not find '" << out[k].name << "'"; return e.str(); }
	}
	return "";
}

// Lenient locator for arbitrary (possibly corrupted) bytes: where the format puts the index table, without
// judging anything else.  Returns false when the fixed skeleton cannot even be located.
struct Loose { uint32_t sLen = 0, stl = 0, iLen = 0; size_t indexAt = 0; std::vector<Entry> entries; std::vector<std::string> names; };
inline bool locate(const std::vector<uint8_t>& b, Loose& L) {
	if (b.size() < 32) return false;
	L.sLen = get32(b, 20) & ~PadFlag;
	if (uint64_t(24) + L.sLen + 8 > b.size() || L.sLen < 4) return false;
	L.stl = get32(b, 24);
	if (uint64_t(L.stl) + 4 > L.sLen) return false;
	std::string cur;
	for (uint32_t i = 0; i < L.stl; ++i) { uint8_t c = b[28 + i]; if (!c) { L.names.push_back(cur); cur.clear(); } else cur.push_back(char(c)); }
	L.indexAt = 24 + size_t(L.sLen) + 8;
	L.iLen = get32(b, L.indexAt - 4) & ~PadFlag;
	uint32_t n = L.iLen / 14;
	for (uint32_t k = 0; k < n; ++k) {
		size_t at = L.indexAt + 14 * size_t(k);
		if (at + 14 > b.size()) return false;
		Entry en; en.nameOffset = get32(b, at); en.blockOffset = get32(b, at + 4); en.size = get32(b, at + 8); en.comp = get16(b, at + 12); en.vblkLen = 0;
		L.entries.push_back(en);
	}
	return true;
}
} // namespace refvol
