// Independent descriptions of the indexed BMP, custom tileset (PBMP) and sprite metadata (PRT) formats.
#pragma once
#include "ref_vol.h"
#include <array>

namespace refgfx {
using refvol::put32; using refvol::put16; using refvol::puttag; using refvol::get32; using refvol::get16; using refvol::tagat;

// ---------------- BMP ----------------
struct Rgba { uint8_t b0, b1, b2, b3; };   // the four palette bytes in file order
inline bool operator==(const Rgba& a, const Rgba& b) { return a.b0 == b.b0 && a.b1 == b.b1 && a.b2 == b.b2 && a.b3 == b.b3; }

inline uint64_t pitch(uint64_t width, unsigned depth) { return (((width * depth + 7) / 8) + 3) & ~uint64_t(3); }
inline uint64_t row_bytes(uint64_t width, unsigned depth) { return (width * depth + 7) / 8; }

struct LBmp {
	unsigned depth = 8; int32_t width = 0, height = 0;
	uint32_t usedColors = 0;                 // 0 = full table
	std::vector<Rgba> palette;               // usedColors ? usedColors : 2^depth entries
	std::vector<uint8_t> pixels;             // pitch * |height| (padding included, arbitrary)
	uint32_t imageSize = 0, xRes = 0, yRes = 0, importantColors = 0, compression = 0; uint16_t reserved1 = 0, reserved2 = 0;
	uint32_t shift = 0;                      // added to both 'size' and 'pixelOffset'
};

inline std::vector<uint8_t> encode_bmp(const LBmp& b, std::vector<size_t>* fields = nullptr) {
	std::vector<uint8_t> v;
	uint32_t pixelOffset = 14 + 40 + 4 * uint32_t(b.palette.size());
	uint32_t size = pixelOffset + uint32_t(b.pixels.size());
	v.push_back('B'); v.push_back('M'); put32(v, size + b.shift); put16(v, b.reserved1); put16(v, b.reserved2); put32(v, pixelOffset + b.shift);
	put32(v, 40); put32(v, uint32_t(b.width)); put32(v, uint32_t(b.height)); put16(v, 1); put16(v, uint16_t(b.depth)); put32(v, b.compression); put32(v, b.imageSize); put32(v, b.xRes); put32(v, b.yRes); put32(v, b.usedColors); put32(v, b.importantColors);
	for (auto& c : b.palette) { v.push_back(c.b0); v.push_back(c.b1); v.push_back(c.b2); v.push_back(c.b3); }
	v.insert(v.end(), b.pixels.begin(), b.pixels.end());
	if (fields) *fields = {2, 6, 8, 10, 14, 18, 22, 26, 28, 30, 34, 38, 42, 46, 50};
	return v;
}

// strict parse of a BMP the library wrote; fills an LBmp
inline std::string parse_written_bmp(const std::vector<uint8_t>& v, LBmp& b) {
	if (v.size() < 54) return "shorter than the two headers";
	if (v[0] != 'B' || v[1] != 'M') return "signature";
	if (get32(v, 2) != v.size()) return "file size field " + std::to_string(get32(v, 2)) + " != actual size " + std::to_string(v.size());
	if (get16(v, 6) || get16(v, 8)) return "reserved fields not zero";
	uint32_t po = get32(v, 10);
	if (get32(v, 14) != 40) return "image header size";
	b.width = int32_t(get32(v, 18)); b.height = int32_t(get32(v, 22));
	if (get16(v, 26) != 1) return "planes";
	b.depth = get16(v, 28);
	if (b.depth != 1 && b.depth != 4 && b.depth != 8) return "bit depth";
	b.compression = get32(v, 30); if (b.compression) return "compression field not 0";
	b.imageSize = get32(v, 34); b.xRes = get32(v, 38); b.yRes = get32(v, 42); b.usedColors = get32(v, 46); b.importantColors = get32(v, 50);
	uint32_t entries = b.usedColors ? b.usedColors : (1u << b.depth);
	if (entries > (1u << b.depth)) return "used colours exceed the depth";
	if (po != 54 + 4 * entries) return "pixel offset " + std::to_string(po) + " does not follow a palette of " + std::to_string(entries) + " entries";
	if (b.width < 0) return "negative width";
	uint64_t need = pitch(uint64_t(b.width), b.depth) * uint64_t(b.height < 0 ? -int64_t(b.height) : b.height);
	if (uint64_t(po) + need != v.size()) return "pixel data length does not match the dimensions";
	b.palette.clear(); for (uint32_t i = 0; i < entries; ++i) b.palette.push_back({v[54 + 4 * i], v[55 + 4 * i], v[56 + 4 * i], v[57 + 4 * i]});
	b.pixels.assign(v.begin() + po, v.end());
	return "";
}

// ---------------- custom tileset (PBMP) ----------------
// picture: 32 pixels wide, 8 bit, h rows given TOP-DOWN, palette as four in-memory bytes {red, green, blue, alpha}
inline std::vector<uint8_t> encode_tileset(uint32_t h, const std::vector<std::array<uint8_t, 4>>& paletteRgba, const std::vector<uint8_t>& rowsTopDown) {
	std::vector<uint8_t> v;
	puttag(v, "PBMP"); put32(v, 1068 + 32 * h);
	puttag(v, "head"); put32(v, 0x14); put32(v, 2); put32(v, 32); put32(v, h); put32(v, 8); put32(v, 8);
	puttag(v, "PPAL"); put32(v, 1048); puttag(v, "head"); put32(v, 4); put32(v, 1);
	puttag(v, "data"); put32(v, 1024);
	for (auto& c : paletteRgba) { v.push_back(c[2]); v.push_back(c[1]); v.push_back(c[0]); v.push_back(c[3]); }   // blue, green, red, alpha
	puttag(v, "data"); put32(v, 32 * h);
	v.insert(v.end(), rowsTopDown.begin(), rowsTopDown.end());
	return v;
}
inline std::vector<size_t> tileset_fields() { return {0, 4, 8, 12, 16, 20, 24, 28, 32, 36, 40, 44, 48, 52, 56, 60, 1088, 1092}; }

// ---------------- PRT ----------------
struct LImage { uint32_t scanLine, pixelOffset, height, width; uint16_t type, paletteIndex; };
struct LLayer { uint16_t bitmapIndex; uint8_t unknown, frameIndex; int16_t x, y; };
struct LFrame { uint8_t count7; bool opt12, opt34; uint8_t unk7; uint8_t o1 = 0, o2 = 0, o3 = 0, o4 = 0; std::vector<LLayer> layers; };
struct LAnim { uint32_t unknown; int32_t rect[4]; int32_t dx, dy; uint32_t unknown2; std::vector<LFrame> frames; std::vector<std::array<uint32_t, 4>> unknownContainer; };
struct LPalHeader { uint32_t overallLen = 1048, headLen = 4, tagCount = 1, dataLen = 1024; };
struct LPrt {
	std::vector<std::array<std::array<uint8_t, 4>, 256>> palettes;   // in-memory convention {red, green, blue, alpha}
	std::vector<LPalHeader> palHeaders;
	std::vector<LImage> images; std::vector<LAnim> anims; uint32_t unknownAnimationCount = 0;
	// header totals; by default derived from the contents
	bool overrideTotals = false; uint32_t hdrAnim = 0, hdrFrames = 0, hdrLayers = 0;
};

inline std::vector<uint8_t> encode_prt(const LPrt& p, std::vector<size_t>* fields = nullptr) {
	std::vector<uint8_t> v;
	auto fld = [&](size_t at) { if (fields) fields->push_back(at); };
	puttag(v, "CPAL"); fld(v.size()); put32(v, uint32_t(p.palettes.size()));
	for (size_t i = 0; i < p.palettes.size(); ++i) {
		LPalHeader h = i < p.palHeaders.size() ? p.palHeaders[i] : LPalHeader();
		puttag(v, "PPAL"); fld(v.size()); put32(v, h.overallLen); puttag(v, "head"); fld(v.size()); put32(v, h.headLen); fld(v.size()); put32(v, h.tagCount); puttag(v, "data"); fld(v.size()); put32(v, h.dataLen);
		for (auto& c : p.palettes[i]) { v.push_back(c[2]); v.push_back(c[1]); v.push_back(c[0]); v.push_back(c[3]); }
	}
	fld(v.size()); put32(v, uint32_t(p.images.size()));
	for (auto& im : p.images) { fld(v.size()); put32(v, im.scanLine); put32(v, im.pixelOffset); fld(v.size()); put32(v, im.height); fld(v.size()); put32(v, im.width); put16(v, im.type); fld(v.size()); put16(v, im.paletteIndex); }
	uint32_t frames = 0, layers = 0; for (auto& a : p.anims) { frames += uint32_t(a.frames.size()); for (auto& f : a.frames) layers += uint32_t(f.layers.size()); }
	fld(v.size()); put32(v, p.overrideTotals ? p.hdrAnim : uint32_t(p.anims.size())); fld(v.size()); put32(v, p.overrideTotals ? p.hdrFrames : frames); fld(v.size()); put32(v, p.overrideTotals ? p.hdrLayers : layers); put32(v, p.unknownAnimationCount);
	for (auto& a : p.anims) {
		put32(v, a.unknown); for (int i = 0; i < 4; ++i) put32(v, uint32_t(a.rect[i])); put32(v, uint32_t(a.dx)); put32(v, uint32_t(a.dy)); put32(v, a.unknown2);
		fld(v.size()); put32(v, uint32_t(a.frames.size()));
		for (auto& f : a.frames) {
			fld(v.size());
			v.push_back(uint8_t((f.count7 & 0x7F) | (f.opt12 ? 0x80 : 0))); v.push_back(uint8_t((f.unk7 & 0x7F) | (f.opt34 ? 0x80 : 0)));
			if (f.opt12) { v.push_back(f.o1); v.push_back(f.o2); }
			if (f.opt34) { v.push_back(f.o3); v.push_back(f.o4); }
			for (auto& l : f.layers) { put16(v, l.bitmapIndex); v.push_back(l.unknown); v.push_back(l.frameIndex); put16(v, uint16_t(l.x)); put16(v, uint16_t(l.y)); }
		}
		fld(v.size()); put32(v, uint32_t(a.unknownContainer.size()));
		for (auto& u : a.unknownContainer) for (int i = 0; i < 4; ++i) put32(v, u[i]);
	}
	return v;
}
} // namespace refgfx
