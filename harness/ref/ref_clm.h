// Independent description of the CLM (clump) layout and of RIFF/WAVE files: builders and strict parsers.
#pragma once
#include "ref_vol.h"
#include <cstring>

namespace refclm {
using refvol::put32; using refvol::put16; using refvol::get32; using refvol::get16; using refvol::tagat;

struct WaveFormat { uint16_t formatTag, channels; uint32_t samplesPerSec, avgBytesPerSec; uint16_t blockAlign, bitsPerSample; };
inline bool operator==(const WaveFormat& a, const WaveFormat& b) { return a.formatTag == b.formatTag && a.channels == b.channels && a.samplesPerSec == b.samplesPerSec && a.avgBytesPerSec == b.avgBytesPerSec && a.blockAlign == b.blockAlign && a.bitsPerSample == b.bitsPerSample; }

inline void putfmt(std::vector<uint8_t>& v, const WaveFormat& f, bool withCb, uint16_t cb = 0) {
	put16(v, f.formatTag); put16(v, f.channels); put32(v, f.samplesPerSec); put32(v, f.avgBytesPerSec); put16(v, f.blockAlign); put16(v, f.bitsPerSample);
	if (withCb) put16(v, cb);
}

const char VersionString[32] = "OP2 Clump File Version 1.0\x1a\0\0\0\0";   // 26 chars, 0x1A, zero fill to 32

struct Track { std::string name; std::vector<uint8_t> data; };
struct Extent { uint32_t offset, length; };

inline std::vector<uint8_t> encode(const WaveFormat& f, const std::vector<Track>& ts, std::vector<Extent>* ext = nullptr) {
	std::vector<uint8_t> v(VersionString, VersionString + 32);
	putfmt(v, f, true, 0);
	const uint8_t unk[6] = {0, 0, 0, 0, 1, 0};
	v.insert(v.end(), unk, unk + 6);
	put32(v, uint32_t(ts.size()));
	uint32_t off = 60 + 16 * uint32_t(ts.size());
	if (ext) ext->clear();
	for (auto& t : ts) {
		for (size_t i = 0; i < 8; ++i) v.push_back(i < t.name.size() ? uint8_t(t.name[i]) : 0);
		put32(v, off); put32(v, uint32_t(t.data.size()));
		if (ext) ext->push_back({off, uint32_t(t.data.size())});
		off += uint32_t(t.data.size());
	}
	for (auto& t : ts) v.insert(v.end(), t.data.begin(), t.data.end());
	return v;
}

struct Entry { std::string name; uint32_t offset, length; };
// strict parse of a CLM the library wrote
inline std::string parse_strict(const std::vector<uint8_t>& b, WaveFormat& f, std::vector<Entry>& out) {
	std::ostringstream e;
	out.clear();
	if (b.size() < 60) return "file shorter than the 60-byte header";
	if (memcmp(b.data(), VersionString, 32) != 0) return "version string mismatch";
	f.formatTag = get16(b, 32); f.channels = get16(b, 34); f.samplesPerSec = get32(b, 36); f.avgBytesPerSec = get32(b, 40); f.blockAlign = get16(b, 44); f.bitsPerSample = get16(b, 46);
	if (get16(b, 48) != 0) return "cbSize in header not 0";
	const uint8_t unk[6] = {0, 0, 0, 0, 1, 0};
	if (memcmp(b.data() + 50, unk, 6) != 0) return "unknown 6 bytes are not {0,0,0,0,1,0}";
	uint32_t n = get32(b, 56);
	if (uint64_t(60) + 16ull * n > b.size()) return "index runs past the file";
	uint64_t expect = 60 + 16ull * n;
	for (uint32_t k = 0; k < n; ++k) {
		size_t at = 60 + 16 * size_t(k);
		Entry en;
		size_t l = 0; while (l < 8 && b[at + l]) ++l;
		en.name.assign(reinterpret_cast<const char*>(b.data() + at), l);
		for (size_t i = l; i < 8; ++i) if (b[at + i]) { e << "entry " << k << " name field not zero padded"; return e.str(); }
		en.offset = get32(b, at + 8); en.length = get32(b, at + 12);
		if (en.offset != expect) { e << "entry " << k << " offset " << en.offset << " != contiguous position " << expect; return e.str(); }
		expect += en.length;
		out.push_back(en);
	}
	if (expect != b.size()) { e << "file has " << b.size() << " bytes but the last member ends at " << expect; return e.str(); }
	{ std::vector<std::string> listed; for (auto& en : out) listed.push_back(en.name); std::string oe = refvol::order_consistent(listed); if (!oe.empty()) { e << oe; return e.str(); } }
	return "";
}

// ---- WAV ----
struct Chunk { char tag[5]; std::vector<uint8_t> body; };
struct WavSpec {
	WaveFormat fmt; bool fmt18 = false; uint16_t cb = 0;
	std::vector<uint8_t> data;
	std::vector<Chunk> beforeFmt, between, afterData;
};
inline void putchunk(std::vector<uint8_t>& v, const char* tag, const std::vector<uint8_t>& body, bool padOdd) {
	refvol::puttag(v, tag); put32(v, uint32_t(body.size())); v.insert(v.end(), body.begin(), body.end());
	if (padOdd && (body.size() & 1)) v.push_back(0);
}
inline std::vector<uint8_t> build_wav(const WavSpec& w) {
	std::vector<uint8_t> v;
	refvol::puttag(v, "RIFF"); put32(v, 0); refvol::puttag(v, "WAVE");
	for (auto& c : w.beforeFmt) putchunk(v, c.tag, c.body, false);
	std::vector<uint8_t> fb; putfmt(fb, w.fmt, w.fmt18, w.cb);
	putchunk(v, "fmt ", fb, false);
	for (auto& c : w.between) putchunk(v, c.tag, c.body, false);
	// RIFF pads odd chunks when another chunk follows
	putchunk(v, "data", w.data, !w.afterData.empty());
	for (auto& c : w.afterData) putchunk(v, c.tag, c.body, false);
	uint32_t riff = uint32_t(v.size() - 8);
	for (int i = 0; i < 4; ++i) v[4 + i] = uint8_t(riff >> (8 * i));
	return v;
}
// strict parser for an extracted WAV: RIFF size = file-8, one 18-byte fmt, one data chunk, nothing after
inline std::string parse_extracted(const std::vector<uint8_t>& b, WaveFormat& f, std::vector<uint8_t>& data) {
	if (b.size() < 46) return "extracted WAV shorter than its 46-byte header";
	if (!tagat(b, 0, "RIFF") || !tagat(b, 8, "WAVE")) return "RIFF/WAVE tags missing";
	if (uint64_t(get32(b, 4)) + 8 != b.size()) return "RIFF size != file size - 8";
	if (!tagat(b, 12, "fmt ")) return "'fmt ' chunk not first";
	if (get32(b, 16) != 18) return "'fmt ' chunk size != 18";
	f.formatTag = get16(b, 20); f.channels = get16(b, 22); f.samplesPerSec = get32(b, 24); f.avgBytesPerSec = get32(b, 28); f.blockAlign = get16(b, 32); f.bitsPerSample = get16(b, 34);
	if (get16(b, 36) != 0) return "cbSize != 0";
	if (!tagat(b, 38, "data")) return "'data' chunk does not follow 'fmt '";
	uint32_t n = get32(b, 42);
	if (uint64_t(46) + n != b.size()) return "data chunk length does not end the file";
	data.assign(b.begin() + 46, b.end());
	return "";
}
} // namespace refclm
