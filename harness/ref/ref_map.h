// Independent description of the Outpost 2 map / saved-game layout over plain structs.
#pragma once
#include "ref_vol.h"
#include <array>

namespace refmap {
using refvol::put32; using refvol::put16; using refvol::get32; using refvol::get16;

struct Source { std::string name; uint32_t numTiles = 0; };
struct Group { uint32_t w = 0, h = 0; std::vector<uint32_t> indices; std::string name; };
struct LMap {
	uint32_t versionTag = 0x1011; int32_t savedFlag = 0; uint32_t lgWidth = 0, height = 0;
	std::vector<uint32_t> tiles;
	int32_t clip[4] = {0, 0, 0, 0};
	std::vector<Source> sources;
	std::vector<std::array<uint16_t, 4>> mappings;        // tilesetIndex, tileGraphicIndex, animationCount, animationDelay
	std::vector<std::array<uint8_t, 264>> terrains;
	std::vector<Group> groups;
	uint32_t unknownWord = 0;
	std::vector<uint8_t> trailing;
};

struct Layout { size_t tilesAt = 0, clipAt = 0, sourcesAt = 0, markerAt = 0, mappingsAt = 0, terrainsAt = 0, tag1At = 0, groupsAt = 0, unknownAt = 0, end = 0; std::vector<size_t> fields; };

// map beginning: header .. terrain types (shared by map files and saved games)
inline void put_beginning(std::vector<uint8_t>& v, const LMap& m, Layout* L) {
	size_t base = v.size();
	auto fld = [&](size_t at) { if (L) L->fields.push_back(at); };
	fld(v.size()); put32(v, m.versionTag); fld(v.size()); put32(v, uint32_t(m.savedFlag)); fld(v.size()); put32(v, m.lgWidth); fld(v.size()); put32(v, m.height); fld(v.size()); put32(v, uint32_t(m.sources.size()));
	if (L) L->tilesAt = v.size();
	for (uint32_t t : m.tiles) put32(v, t);
	if (L) L->clipAt = v.size();
	for (int i = 0; i < 4; ++i) put32(v, uint32_t(m.clip[i]));
	if (L) L->sourcesAt = v.size();
	for (auto& s : m.sources) { fld(v.size()); put32(v, uint32_t(s.name.size())); v.insert(v.end(), s.name.begin(), s.name.end()); if (!s.name.empty()) { fld(v.size()); put32(v, s.numTiles); } }
	if (L) L->markerAt = v.size();
	const char marker[10] = {'T', 'I', 'L', 'E', ' ', 'S', 'E', 'T', 0x1a, 0};
	v.insert(v.end(), marker, marker + 10);
	if (L) L->mappingsAt = v.size();
	fld(v.size()); put32(v, uint32_t(m.mappings.size()));
	for (auto& e : m.mappings) for (int i = 0; i < 4; ++i) put16(v, e[i]);
	if (L) L->terrainsAt = v.size();
	fld(v.size()); put32(v, uint32_t(m.terrains.size()));
	for (auto& t : m.terrains) v.insert(v.end(), t.begin(), t.end());
	(void)base;
}

inline std::vector<uint8_t> encode(const LMap& m, Layout* L = nullptr) {
	std::vector<uint8_t> v;
	put_beginning(v, m, L);
	auto fld = [&](size_t at) { if (L) L->fields.push_back(at); };
	if (L) L->tag1At = v.size();
	fld(v.size()); put32(v, m.versionTag); fld(v.size()); put32(v, m.versionTag);
	if (L) L->groupsAt = v.size();
	fld(v.size()); put32(v, uint32_t(m.groups.size()));
	if (L) L->unknownAt = v.size();
	put32(v, m.unknownWord);
	for (auto& g : m.groups) { fld(v.size()); put32(v, g.w); fld(v.size()); put32(v, g.h); for (uint32_t i : g.indices) put32(v, i); fld(v.size()); put32(v, uint32_t(g.name.size())); v.insert(v.end(), g.name.begin(), g.name.end()); }
	if (L) L->end = v.size();
	v.insert(v.end(), m.trailing.begin(), m.trailing.end());
	return v;
}

// what a writer given the parsed map must emit: flag normalised to 0/1, unknown word regenerated
inline std::vector<uint8_t> canonical(const LMap& m) {
	LMap c = m; c.savedFlag = m.savedFlag != 0 ? 1 : 0; c.unknownWord = m.groups.empty() ? 0 : uint32_t(m.groups.size()) - 1; c.trailing.clear();
	return encode(c);
}

struct SaveExtra { uint32_t unitCount = 0, lastUsed = 0, nextFree = 0, firstFree = 0, sizeOfUnit = 120, objectCount1 = 0, objectCount2 = 0, nextUnit = 0, prevUnit = 0; uint8_t fill = 0; };
const size_t SaveHeaderSkip = 0x1E025;

inline std::vector<uint8_t> encode_saved(const LMap& m, const SaveExtra& x, Layout* L = nullptr, size_t* consumedEnd = nullptr) {
	std::vector<uint8_t> v(SaveHeaderSkip);
	for (size_t i = 0; i < v.size(); ++i) v[i] = uint8_t(i * 7 + x.fill);
	put_beginning(v, m, L);
	auto fld = [&](size_t at) { if (L) L->fields.push_back(at); };
	fld(v.size()); put32(v, m.versionTag);
	for (uint32_t f : {x.unitCount, x.lastUsed, x.nextFree, x.firstFree, x.sizeOfUnit, x.objectCount1, x.objectCount2}) { fld(v.size()); put32(v, f); }
	for (uint32_t i = 0; i < x.objectCount1; ++i) for (int k = 0; k < 512; ++k) v.push_back(uint8_t(k + i + x.fill));
	for (uint32_t i = 0; i < x.objectCount2; ++i) put32(v, i * 3 + x.fill);
	put32(v, x.nextUnit); put32(v, x.prevUnit);
	for (size_t i = 0; i < 2047 * 120; ++i) v.push_back(uint8_t(i + x.fill));
	if (x.firstFree != x.nextFree) for (size_t i = 0; i < 2048; ++i) put32(v, uint32_t(i));
	fld(v.size()); put32(v, m.versionTag);
	if (consumedEnd) *consumedEnd = v.size();
	v.insert(v.end(), m.trailing.begin(), m.trailing.end());
	return v;
}

// independent tile word layout
inline uint32_t tile_cell(uint32_t w) { return w & 31; }
inline uint32_t tile_mapping(uint32_t w) { return (w >> 5) & 0x7FF; }
inline uint32_t tile_unit(uint32_t w) { return (w >> 16) & 0x7FF; }
inline bool tile_lava_possible(uint32_t w) { return (w >> 28) & 1; }
inline size_t tile_index(uint64_t x, uint64_t y, uint64_t height) { return size_t(((x >> 5) * height + y) * 32 + (x & 31)); }
} // namespace refmap
