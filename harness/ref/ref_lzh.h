// Independent reference for the LZH (LZSS + adaptive Huffman) member compression of VOL archives:
// adaptive Huffman tree (classic freq/prnt/son formulation, generic symbol count), decoder, token-level encoder.
#pragma once
#include <cstdint>
#include <vector>
#include <string>
#include <stdexcept>

namespace reflzh {

struct CapacityReached {};

// Sibling-property adaptive Huffman tree over n symbols.  Nodes 0..T-1 are kept in non-decreasing
// count order; node T-1 is the root.  son[i] >= T marks a leaf holding symbol son[i]-T.
struct RefHuff {
	int n, T, R;
	std::vector<uint32_t> freq;
	std::vector<int> prnt, son;
	uint64_t updates = 0;
	explicit RefHuff(int n_) : n(n_), T(2 * n_ - 1), R(2 * n_ - 2), freq(2 * n_), prnt(3 * n_), son(2 * n_) {
		for (int i = 0; i < n; ++i) { freq[i] = 1; son[i] = i + T; prnt[i + T] = i; }
		int i = 0, j = n;
		while (j <= R) { freq[j] = freq[i] + freq[i + 1]; son[j] = i; prnt[i] = prnt[i + 1] = j; i += 2; ++j; }
		freq[T] = 0xFFFFFFFFu; // sentinel
		prnt[R] = -1;
	}
	bool at_capacity() const { return freq[R] >= 65535; }   // counts are 16 bit in the format's decoder
	bool is_leaf(int node) const { return son[node] >= T; }
	int symbol(int node) const { return son[node] - T; }
	int child(int node, bool right) const { return son[node] + (right ? 1 : 0); }
	// increment, swap with the highest-numbered node whose count is still below the incremented count,
	// climb to the parent, repeat up to the root
	void update(int sym) {
		if (sym < 0 || sym >= n) throw std::out_of_range("symbol");
		if (at_capacity()) throw CapacityReached();
		++updates;
		int c = prnt[sym + T];
		do {
			uint32_t k = ++freq[c];
			int l = c + 1;
			if (k > freq[l]) {
				while (k > freq[l + 1]) ++l;
				freq[c] = freq[l]; freq[l] = k;
				int i = son[c];
				prnt[i] = l; if (i < T) prnt[i + 1] = l;
				int j = son[l]; son[l] = i;
				prnt[j] = c; if (j < T) prnt[j + 1] = c;
				son[c] = j;
				c = l;
			}
			c = prnt[c];
		} while (c != -1);
	}
	int depth(int sym) const { int d = 0; for (int c = prnt[sym + T]; c != R; c = prnt[c]) ++d; return d; }
	// path root -> leaf as a vector of branch bits (false = left)
	std::vector<bool> path(int sym) const {
		std::vector<bool> rev;
		for (int c = prnt[sym + T]; c != R; c = prnt[c]) rev.push_back(son[prnt[c]] + 1 == c);
		return std::vector<bool>(rev.rbegin(), rev.rend());
	}
};

// position prefix code: value u (upper 6 bits of the offset) -> (code, length), built from the length classes
struct PosTables {
	uint8_t p_len[64]; uint8_t p_code[64];   // encoder side
	uint8_t d_code[256]; uint8_t d_len[256]; // decoder side, indexed by the next 8 bits
	PosTables() {
		const int counts[6] = {1, 3, 8, 12, 24, 16}; // number of values with code length 3,4,5,6,7,8
		unsigned next = 0; int u = 0;
		for (int cls = 0; cls < 6; ++cls) {
			int len = 3 + cls;
			for (int k = 0; k < counts[cls]; ++k, ++u) {
				p_len[u] = uint8_t(len);
				p_code[u] = uint8_t(next);             // left-aligned 8-bit pattern
				unsigned span = 1u << (8 - len);
				for (unsigned x = 0; x < span; ++x) { d_code[next + x] = uint8_t(u); d_len[next + x] = uint8_t(len); }
				next += span;
			}
		}
	}
};
inline const PosTables& pos_tables() { static PosTables t; return t; }

struct BitIn {
	const std::vector<uint8_t>& b; uint64_t pos = 0;
	explicit BitIn(const std::vector<uint8_t>& v) : b(v) {}
	bool eos() const { return pos >= uint64_t(b.size()) * 8; }
	int bit() { if (eos()) return 0; int r = (b[pos >> 3] >> (7 - (pos & 7))) & 1; ++pos; return r; }
};

struct DecodeResult { std::vector<uint8_t> out; bool capacity = false; uint64_t codes = 0; size_t out_at_capacity = 0; bool any_match = false; };

// Decode the whole input.  On reaching the tree's capacity (the 65222nd update for 314 symbols) decoding stops:
// result.capacity = true and result.out holds the output of the codes completed before it.
inline DecodeResult decode(const std::vector<uint8_t>& in, unsigned* lenHist = nullptr, unsigned* distClassHist = nullptr) {
	DecodeResult r;
	RefHuff tree(314);
	std::vector<uint8_t> win(4096, ' ');
	unsigned w = 0;
	BitIn bits(in);
	const PosTables& pt = pos_tables();
	for (;;) {
		int node = tree.R;
		while (!tree.is_leaf(node)) node = tree.child(node, bits.bit());
		int sym = tree.symbol(node);
		if (tree.at_capacity()) { r.capacity = true; r.out_at_capacity = r.out.size(); return r; }
		tree.update(sym);
		++r.codes;
		if (sym < 256) { win[w] = uint8_t(sym); w = (w + 1) & 4095; r.out.push_back(uint8_t(sym)); }
		else {
			unsigned i = 0;
			for (int k = 0; k < 8; ++k) i = (i << 1) | unsigned(bits.bit());
			unsigned upper = pt.d_code[i];
			int dl = pt.d_len[i];
			int extra = dl - 2;
			for (int k = 0; k < extra; ++k) i = (i << 1) | unsigned(bits.bit());
			unsigned offset = (upper << 6) | (i & 0x3F);
			unsigned len = unsigned(sym) - 253;
			unsigned src = (w - offset - 1) & 4095;
			for (unsigned k = 0; k < len; ++k) { uint8_t c = win[src]; src = (src + 1) & 4095; win[w] = c; w = (w + 1) & 4095; r.out.push_back(c); }
			r.any_match = true;
			if (lenHist) ++lenHist[len];
			if (distClassHist) ++distClassHist[dl - 3];
		}
		if (bits.eos()) return r;
	}
}

struct Token { bool match; uint8_t lit; unsigned len, dist; }; // match: len 3..60, dist 1..4096

struct BitOut {
	std::vector<uint8_t> b; unsigned nbits = 0;
	void put(bool v) { if ((nbits & 7) == 0) b.push_back(0); if (v) b.back() |= uint8_t(0x80 >> (nbits & 7)); ++nbits; }
	void put(unsigned value, int n) { for (int k = n - 1; k >= 0; --k) put((value >> k) & 1); }
};

// Token-level encoder.  Returns the compressed bytes; `payload` receives the expansion of the tokens.
// Tokens beyond the tree capacity are still emitted (the caller decides whether to cross it).
inline std::vector<uint8_t> encode(const std::vector<Token>& toks, std::vector<uint8_t>& payload) {
	RefHuff tree(314);
	std::vector<uint8_t> win(4096, ' ');
	unsigned w = 0;
	BitOut o;
	const PosTables& pt = pos_tables();
	payload.clear();
	for (auto& t : toks) {
		int sym = t.match ? int(t.len) + 253 : int(t.lit);
		for (bool bit : tree.path(sym)) o.put(bit);
		if (!tree.at_capacity()) tree.update(sym);
		if (!t.match) { win[w] = t.lit; w = (w + 1) & 4095; payload.push_back(t.lit); }
		else {
			unsigned offset = t.dist - 1;
			unsigned u = offset >> 6;
			o.put(unsigned(pt.p_code[u]) >> (8 - pt.p_len[u]), pt.p_len[u]);
			o.put(offset & 0x3F, 6);
			unsigned src = (w - offset - 1) & 4095;
			for (unsigned k = 0; k < t.len; ++k) { uint8_t c = win[src]; src = (src + 1) & 4095; win[w] = c; w = (w + 1) & 4095; payload.push_back(c); }
		}
	}
	return o.b;
}
} // namespace reflzh
