// C17 — name lookup and resource resolution are case-blind, consistent, loose-file-first.
#include "vol_common.h"
#include "ref/ref_clm.h"
#include "ResourceManager.h"
#include "Archive/VolFile.h"
#include "Archive/ClmFile.h"
#include "Stream/BidirectionalReader.h"
#include "XFile.h"
#include <map>
#include <regex>

using namespace verif;
using namespace OP2Utility;
const char* const PROP_ID = "C17";

namespace {
// ".a.txt" / "..b.dat" begin with dots that are NOT a "./" prefix: they must never be confused with "a.txt" / "b.dat"
const char* pool[] = {"a.txt", "A.TXT", "b.dat", "B.dat", "c", "readme.TXT", "d.txt", "trk1", "TRK1", "e.map", "a.TXT", "song", "x_y.bmp", "X_Y.BMP", ".a.txt", "..b.dat", "q{1}.dat", "q[1].dat",
	"map_1.txt", "mapa.txt", "MAPB.TXT", "map^2.txt", "map`.txt"};   // one prefix, then a byte between the letter cases against letters: the orders by lower- and by upper-cased bytes disagree on these   // the last two differ only in bytes that a sloppy upper-casing maps onto each other
const size_t poolN = sizeof pool / sizeof pool[0];

struct Arch { std::string file; bool isVol; bool loaded; std::vector<std::string> names; std::vector<std::vector<uint8_t>> data; unsigned unusedSlots = 0; uint32_t unusedFill = 0; };
struct Layout { std::string dir; std::map<std::string, std::vector<uint8_t>> loose; std::vector<Arch> archs; };

std::string strip_dot_slash(std::string s) { while (s.compare(0, 2, "./") == 0) s = s.substr(2); return s; }
bool name_eq(const std::string& member, const std::string& q) { return refvol::ieq(strip_dot_slash(member), strip_dot_slash(q)); }
std::string ext_of(const std::string& n) { size_t p = n.rfind('.'); if (p == std::string::npos || p == 0) return ""; return n.substr(p); }

std::vector<uint8_t> content_for(const std::string& who, const std::string& name, uint64_t salt) {
	std::vector<uint8_t> v; if (salt % 11 == 3) return v;   // zero-length loose files and members exist too (a loose empty file still shadows a member)
	std::string s = who + ":" + name + ":" + std::to_string(salt % 7);
	v.assign(s.begin(), s.end()); return v;
}

Layout gen_layout(Tape& t, unsigned serial) {
	Layout L; L.dir = std::to_string(1000 + serial % 9000);
	unsigned nl = unsigned(t.below(7));
	for (unsigned i = 0; i < nl; ++i) { std::string n = pool[t.below(poolN)]; L.loose[n] = content_for("loose", n, t.u8()); }
	unsigned nv = unsigned(t.below(4)), nc = unsigned(t.below(3));
	for (unsigned i = 0; i < nv + nc; ++i) {
		Arch a; a.isVol = i < nv; a.loaded = true;
		a.file = std::to_string(i + 1) + (t.below(6) == 0 ? ".0" : "") + (a.isVol ? ".vol" : ".clm");   // '3.0.vol' is an archive as well: only the last extension counts
		if (t.below(8) == 0) { a.file = std::to_string(i + 1) + (a.isVol ? ".VOL" : ".Clm"); a.loaded = false; }   // not matched by the exact-extension scan
		unsigned nm = unsigned(t.below(5)); bool dups = t.below(5) == 0;
		if (a.isVol && t.below(3) == 0) { a.unusedSlots = 1 + unsigned(t.below(3)); a.unusedFill = t.flag() ? 0 : t.u32(); }   // trailing unused index slots (the game's own volumes have them)
		std::vector<std::string> names;
		for (unsigned k = 0; k < nm; ++k) {
			std::string n = pool[t.below(poolN)];
			if (!a.isVol) { if (t.below(3) != 0) n = n.substr(0, n.find('.')); if (n.size() > 8) n.resize(8); if (n.empty()) continue; }   // one clump member in three keeps a dot in its name (packing 'a.txt.wav' gives the member 'a.txt'): it has an extension like any other name
			bool clash = false; for (auto& e : names) if (dups ? false : refvol::ieq(e, n)) clash = true;
			if (!clash) names.push_back(n);
		}
		std::stable_sort(names.begin(), names.end(), [](const std::string& x, const std::string& y) { return refvol::icmp(x, y) < 0; });
		// one archive in six is NOT in binary-search order (a foreign or hand-made file): the statement speaks of every archive, and
		// membership, index lookup and resolution must agree on it just the same (first match in index order)
		if (names.size() >= 2 && t.below(6) == 0) { for (size_t k = names.size(); k > 1; --k) std::swap(names[k - 1], names[t.below(k)]); }
		a.names = names;
		for (size_t k = 0; k < names.size(); ++k) a.data.push_back(content_for(a.file, names[k], k + t.u8()));
		L.archs.push_back(a);
	}
	return L;
}

void build(const Layout& L, bool subdirs) {
	volgen::root();
	volgen::mkdirs(L.dir + "/");
	for (auto& kv : L.loose) write_file(L.dir + "/" + kv.first, kv.second);
	for (auto& a : L.archs) {
		std::vector<uint8_t> bytes;
		if (a.isVol) { std::vector<refvol::Member> ms; for (size_t k = 0; k < a.names.size(); ++k) { refvol::Member m; m.name = a.names[k]; m.payload = a.data[k]; m.sizeField = uint32_t(m.payload.size()); ms.push_back(m); } refvol::EncodeOpts eo; eo.unusedSlots = a.unusedSlots; eo.unusedFill = a.unusedFill; bytes = refvol::encode(ms, eo); }
		else { std::vector<refclm::Track> ts; for (size_t k = 0; k < a.names.size(); ++k) ts.push_back({a.names[k], a.data[k]}); bytes = refclm::encode({1, 1, 22050, 44100, 2, 16}, ts); }
		write_file(L.dir + "/" + a.file, bytes);
	}
	if (subdirs) { volgen::mkdirs(L.dir + "/7/"); write_file(L.dir + "/7/a.txt", content_for("sub", "a.txt", 0)); volgen::mkdirs(L.dir + "/8.vol/"); volgen::mkdirs(L.dir + "/9.clm/"); write_file(L.dir + "/8.vol/inner.txt", {1}); }
}

void destroy(const Layout& L) { std::string cmd = volgen::root() + "/" + L.dir; XFile::DeletePath(cmd); }

std::vector<uint8_t> drain(Stream::BidirectionalReader& r) { std::vector<uint8_t> v(r.Length() - r.Position()); r.Read(v.data(), v.size()); return v; }

// archive-level laws on one archive object
void archive_laws(Archive::ArchiveFile& ar, const Arch& a, Tape& t0, Stats& st) {
	std::vector<uint8_t> qbytes = t0.expand(6 * 24);
	Tape t(qbytes);
	V_CHECK(ar.GetCount() == a.names.size(), "archive " << a.file << " lists " << ar.GetCount() << " members, encoder wrote " << a.names.size());
	bool dupFree = true; for (size_t i = 0; i < a.names.size(); ++i) for (size_t j = i + 1; j < a.names.size(); ++j) if (refvol::ieq(a.names[i], a.names[j])) dupFree = false;
	for (size_t i = 0; i < a.names.size(); ++i) {
		V_CHECK(ar.GetName(i) == a.names[i], "GetName(" << i << ")");
		if (dupFree) V_CHECK(ar.GetIndex(ar.GetName(i)) == i, "GetIndex(GetName(" << i << ")) = " << ar.GetIndex(ar.GetName(i)) << " on a duplicate-free archive");
	}
	for (int k = 0; k < 6; ++k) {
		std::string base = t.below(4) == 0 ? "nope.bin" : std::string(pool[t.below(poolN)]);
		if (!a.isVol && t.flag()) { base = base.substr(0, base.find('.')); if (base.empty()) base = "c"; }
		std::string q = volgen::case_variant(base, t.u64()); if (t.below(3) == 0) q = "./" + q;
		bool has = ar.Contains(q);
		size_t idx = 0; Out o = guarded([&] { idx = ar.GetIndex(q); });
		V_CHECK(has == (o == Out::Ok), "Contains(" << jstr(q) << ")=" << has << " but GetIndex " << (o == Out::Ok ? "succeeds" : "throws") << " in " << a.file);
		bool model = false; size_t first = 0; for (size_t i = 0; i < a.names.size(); ++i) if (name_eq(a.names[i], q)) { model = true; first = i; break; }
		V_CHECK(has == model, "Contains(" << jstr(q) << ") = " << has << " but the archive " << (model ? "holds" : "does not hold") << " a member equal ignoring case and './'");
		if (has) { V_CHECK(idx < a.names.size() && name_eq(a.names[idx], q), "GetIndex(" << jstr(q) << ") = " << idx << " names a different member"); V_CHECK(idx == first, "GetIndex(" << jstr(q) << ") = " << idx << ", first matching member is " << first); if (q != a.names[idx]) st.cls("lookup:case_or_dotslash_variant_found"); }
	}
	for (size_t bad : {a.names.size(), a.names.size() + 1, a.names.size() + 2, a.names.size() + 3, size_t(0xFFFFFFFF), ~size_t(0)}) {
		V_CHECK(guarded([&] { ar.GetName(bad); }) == Out::Err, "GetName(" << bad << ") accepted");
		V_CHECK(guarded([&] { ar.GetSize(bad); }) == Out::Err, "GetSize(" << bad << ") accepted");
		V_CHECK(guarded([&] { ar.OpenStream(bad); }) == Out::Err, "OpenStream(" << bad << ") accepted");
		V_CHECK(guarded([&] { ar.ExtractFile(bad, scratch_path("c17_bad.bin")); }) == Out::Err, "ExtractFile(" << bad << ") accepted");
		if (a.isVol) V_CHECK(guarded([&] { static_cast<Archive::VolFile&>(ar).GetCompressionCode(bad); }) == Out::Err, "GetCompressionCode(" << bad << ") accepted");
		if (a.unusedSlots) st.cls("lookup:index_in_unused_slot_refused");
	}
}

void manager_case(const Layout& L, Tape& t0, Stats& st, bool subdirs) {
	build(L, subdirs);
	struct Cleanup { const Layout& l; ~Cleanup() { destroy(l); } } cl{L};
	ResourceManager rm(L.dir);
	// loaded archives: regular files with the exact extensions
	std::vector<std::string> expVol, expClm;
	for (auto& a : L.archs) if (a.loaded) (a.isVol ? expVol : expClm).push_back(XFile::Append(L.dir, a.file));
	auto got = rm.GetArchiveFilenames();
	V_CHECK(got.size() == expVol.size() + expClm.size(), "GetArchiveFilenames lists " << got.size() << " archives, the directory holds " << expVol.size() << " .vol + " << expClm.size() << " .clm regular files");
	{ std::vector<std::string> g1(got.begin(), got.begin() + expVol.size()), g2(got.begin() + expVol.size(), got.end()); std::sort(g1.begin(), g1.end()); std::sort(g2.begin(), g2.end()); std::sort(expVol.begin(), expVol.end()); std::sort(expClm.begin(), expClm.end());
	  V_CHECK(g1 == expVol && g2 == expClm, "GetArchiveFilenames is not the .vol files followed by the .clm files"); }
	// everything that exists as a regular file directly in the directory (archives included)
	std::map<std::string, std::vector<uint8_t>> files = L.loose;
	for (auto& a : L.archs) { std::vector<uint8_t> b; read_file(L.dir + "/" + a.file, b); files[a.file] = b; }
	bool nt = false;
	// the 20 queries are expanded from one 8-byte tape seed so that short tapes still ask varied questions
	std::vector<uint8_t> qbytes = t0.expand(20 * 24);
	Tape t(qbytes);
	for (int qn = 0; qn < 20; ++qn) {
		std::string base;
		switch (t.below(6)) { case 0: base = "missing.txt"; break; case 1: base = subdirs ? "7/a.txt" : "a.txt"; break; default: base = pool[t.below(poolN)]; break; }
		if (t.below(4) == 0) { base = base.substr(0, base.find('.') == std::string::npos ? base.size() : base.find('.')); if (base.empty()) base = "c"; }
		std::string q = t.flag() ? volgen::case_variant(base, t.u64()) : base; if (t.below(3) == 0) q = "./" + q;
		bool access = t.below(4) != 0;
		std::unique_ptr<Stream::BidirectionalReader> s;
		std::string what; Out o = guarded([&] { s = rm.GetResourceStream(q, access); }, &what);
		V_CHECK(o == Out::Ok, "GetResourceStream(" << jstr(q) << ") threw: " << what);
		// model
		std::string rel = strip_dot_slash(q);
		const std::vector<uint8_t>* looseHit = nullptr; std::vector<uint8_t> sub;
		if (files.count(rel)) looseHit = &files[rel]; else if (subdirs && rel == "7/a.txt") { sub = content_for("sub", "a.txt", 0); looseHit = &sub; }
		std::vector<const std::vector<uint8_t>*> memberHits; unsigned holders = 0;
		for (auto& a : L.archs) if (a.loaded) for (size_t i = 0; i < a.names.size(); ++i) if (name_eq(a.names[i], q)) { memberHits.push_back(&a.data[i]); ++holders; break; }
		if (looseHit) { V_CHECK(s != nullptr, "GetResourceStream(" << jstr(q) << ") returned nothing although the loose file exists"); V_CHECK(drain(*s) == *looseHit, "GetResourceStream(" << jstr(q) << ") did not return the loose file's bytes (loose files come first)"); st.cls("resolve:loose"); if (holders) { nt = true; st.cls("resolve:loose_shadows_member"); } }
		else if (access && !memberHits.empty()) { V_CHECK(s != nullptr, "GetResourceStream(" << jstr(q) << ") returned nothing although a loaded archive holds the name"); auto b = drain(*s); bool ok = false; for (auto* m : memberHits) if (b == *m) ok = true; V_CHECK(ok, "GetResourceStream(" << jstr(q) << ") returned bytes that are no holder's member"); st.cls("resolve:member"); nt = true; if (holders > 1) st.cls("resolve:two_archives_hold_it"); }
		else { V_CHECK(s == nullptr, "GetResourceStream(" << jstr(q) << ", archives " << (access ? "on" : "off") << ") returned a stream although nothing by that name exists" << (access ? "" : " outside archives")); st.cls(access ? "resolve:nothing" : "resolve:archives_disabled"); if (!access && !memberHits.empty()) nt = true; }
		// containing archive
		std::string ca = rm.FindContainingArchivePath(q);
		if (ca.empty()) V_CHECK(memberHits.empty(), "FindContainingArchivePath(" << jstr(q) << ") empty although a loaded archive holds it");
		else { bool ok = false; for (auto& a : L.archs) if (a.loaded && XFile::Append(L.dir, a.file) == ca) for (auto& n : a.names) if (name_eq(n, q)) ok = true; V_CHECK(ok, "FindContainingArchivePath(" << jstr(q) << ") = " << jstr(ca) << " which does not contain it"); }
	}
	// rooted paths are refused
	V_CHECK(guarded([&] { rm.GetResourceStream("/etc/hostname"); }) == Out::Err, "rooted path accepted");
	V_CHECK(guarded([&] { rm.GetResourceStream(volgen::root() + "/" + L.dir + "/a.txt"); }) == Out::Err, "rooted path accepted");
	// type listings
	for (const char* ext : {".txt", ".TXT", ".dat", ".vol", ".map", ".bmp", "", ".zzz"}) for (int access = 0; access < 2; ++access) {
		auto r = rm.GetAllFilenamesOfType(ext, access);
		std::vector<std::string> loose; for (auto& kv : files) if (ext_of(kv.first) == ext) loose.push_back(kv.first);
		if (std::string(ext).empty()) { loose.clear(); for (auto& kv : files) if (ext_of(kv.first).empty() && kv.first.find('.') == std::string::npos) loose.push_back(kv.first); }
		V_CHECK(r.size() >= loose.size(), "type listing " << jstr(ext) << " has " << r.size() << " names, fewer than the " << loose.size() << " matching loose files");
		std::vector<std::string> head(r.begin(), r.begin() + loose.size()), tail(r.begin() + loose.size(), r.end());
		std::sort(head.begin(), head.end()); std::sort(loose.begin(), loose.end());
		V_CHECK(head == loose, "type listing " << jstr(ext) << " does not start with exactly the matching loose files");
		// members: case-blind extension match, one per name class, never a class already listed
		std::vector<std::string> classes; for (auto& n : loose) classes.push_back(n);
		std::vector<std::string> expectClasses;
		if (access) for (auto& a : L.archs) if (a.loaded) for (auto& n : a.names) if (refvol::ieq(ext_of(n), ext)) { bool seen = false; for (auto& c : classes) if (refvol::ieq(c, n)) seen = true; for (auto& c : expectClasses) if (refvol::ieq(c, n)) seen = true; if (!seen) expectClasses.push_back(n); }
		V_CHECK(tail.size() == expectClasses.size(), "type listing " << jstr(ext) << " (archives " << (access ? "on" : "off") << ") lists " << tail.size() << " archive members, expected one per new name class = " << expectClasses.size());
		for (auto& n : tail) { bool ok = false; for (auto& c : expectClasses) if (refvol::ieq(c, n)) ok = true; V_CHECK(ok, "type listing " << jstr(ext) << " contains " << jstr(n) << " which is not a matching member of a new name class");
			int cnt = 0; for (auto& m : tail) if (refvol::ieq(m, n)) ++cnt; V_CHECK(cnt == 1, "type listing " << jstr(ext) << " lists the member class of " << jstr(n) << " " << cnt << " times"); }
	}
	// pattern listings (letter-only patterns cannot match the digit-named directory part of the path)
	for (const char* pat : {"txt", "a", "TRK", "dat$", "b", "readme", "x_y", "zzzz"}) for (int access = 0; access < 2; ++access) {
		auto r = rm.GetAllFilenames(pat, access);
		std::regex re(pat, std::regex_constants::icase);
		std::vector<std::string> exp;
		for (auto& kv : files) if (std::regex_search(L.dir + "/" + kv.first, re)) exp.push_back(kv.first);
		if (access) for (auto& a : L.archs) if (a.loaded) for (auto& n : a.names) if (std::regex_search(n, re)) exp.push_back(n);
		std::sort(r.begin(), r.end()); std::sort(exp.begin(), exp.end());
		V_CHECK(r == exp, "pattern listing " << jstr(pat) << " (archives " << (access ? "on" : "off") << ") has " << r.size() << " names, expected the " << exp.size() << " matching loose files and members");
	}
	st.cls("layout:archives:" + std::to_string(L.archs.size()));
	if (nt) { uint64_t h = L.loose.size(); for (auto& kv : L.loose) h = fnv1a(kv.first.data(), kv.first.size(), h); for (auto& a : L.archs) { h = fnv1a(a.file.data(), a.file.size(), h); for (auto& n : a.names) h = fnv1a(n.data(), n.size(), h); } st.nt(h ^ fnv1a(qbytes.data(), qbytes.size())); }
}

unsigned g_serial = 0;
} // namespace

void run_case(Tape& t, Stats& st) {
	volgen::root();
	Layout L = gen_layout(t, g_serial++);
	bool subdirs = t.flag();
	if (st.want_sample()) { std::string s = "{\"loose\":["; bool f = true; for (auto& kv : L.loose) { s += (f ? "" : ",") + jstr(kv.first); f = false; } s += "],\"archives\":["; for (size_t i = 0; i < L.archs.size(); ++i) { s += (i ? "," : "") + std::string("{\"file\":") + jstr(L.archs[i].file) + ",\"members\":["; for (size_t k = 0; k < L.archs[i].names.size(); ++k) s += (k ? "," : "") + jstr(L.archs[i].names[k]); s += "]}"; } st.sample(s + "]}"); }
	// archive-level laws on each archive file of the layout
	build(L, false);
	for (auto& a : L.archs) {
		std::unique_ptr<Archive::ArchiveFile> ar;
		if (a.isVol) ar = std::make_unique<Archive::VolFile>(L.dir + "/" + a.file); else ar = std::make_unique<Archive::ClmFile>(L.dir + "/" + a.file);
		archive_laws(*ar, a, t, st);
	}
	destroy(L);
	manager_case(L, t, st, subdirs);
}

// an archive with more members than a 16-bit index can count: lookups, streams and resolution through the manager for members on both sides of 65536
void many_members(bool clm, Stats& st) {
	const uint32_t N = 65600; std::string dir = "6500" + std::string(clm ? "1" : "0"); mkdir(dir.c_str(), 0700);
	auto nameOf = [&](uint32_t i) { char b[16]; snprintf(b, sizeof b, clm ? "%08u" : "m%07u.bin", i); return std::string(b); };
	auto dataOf = [&](uint32_t i) { return std::vector<uint8_t>{uint8_t(i), uint8_t(i >> 8), uint8_t(i >> 16), uint8_t(0xC0 + (i % 7))}; };
	std::string ap = dir + (clm ? "/1.clm" : "/1.vol");
	if (clm) { std::vector<refclm::Track> ts; for (uint32_t i = 0; i < N; ++i) ts.push_back({nameOf(i), dataOf(i)}); write_file(ap, refclm::encode({1, 1, 22050, 44100, 2, 16}, ts)); }
	else { std::vector<refvol::Member> ms(N); for (uint32_t i = 0; i < N; ++i) { ms[i].name = nameOf(i); ms[i].payload = dataOf(i); ms[i].sizeField = 4; } write_file(ap, refvol::encode(ms)); }
	{
		std::unique_ptr<Archive::ArchiveFile> a; if (clm) a = std::make_unique<Archive::ClmFile>(ap); else a = std::make_unique<Archive::VolFile>(ap);
		V_CHECK(a->GetCount() == N, "archive of " << N << " members opened with " << a->GetCount());
		ResourceManager rm(dir);
		for (uint32_t i : {0u, 1u, 255u, 256u, 32767u, 32768u, 65534u, 65535u, 65536u, 65537u, 65599u, 40000u}) {
			std::string nm = nameOf(i), q = volgen::case_variant(nm, 0x2D);
			V_CHECK(a->GetName(i) == nm, "GetName(" << i << ") of " << N);
			V_CHECK(a->Contains(q) && a->GetIndex(q) == i, "GetIndex(" << jstr(q) << ") = " << (a->Contains(q) ? a->GetIndex(q) : size_t(-1)) << ", the member is at " << i << " of " << N);
			{ auto s = a->OpenStream(i); V_CHECK(drain(*s) == dataOf(i), "stream of member " << i << " of " << N << " delivers other bytes"); }
			{ auto s = a->OpenStream(q); V_CHECK(drain(*s) == dataOf(i), "stream by name of member " << i << " of " << N << " delivers other bytes"); }
			std::string rq = clm ? q : "./" + q; auto s = rm.GetResourceStream(rq, true);
			V_CHECK(s != nullptr, "GetResourceStream(" << jstr(rq) << ") returned nothing; member " << i << " of the loaded archive has that name");
			V_CHECK(drain(*s) == dataOf(i), "GetResourceStream(" << jstr(rq) << ") returned other bytes than member " << i << " of " << N << " holds");
			V_CHECK(rm.FindContainingArchivePath(rq) == XFile::Append(dir, clm ? "1.clm" : "1.vol"), "FindContainingArchivePath for member " << i << " of " << N);
			V_CHECK(rm.GetResourceStream(rq, false) == nullptr, "member returned although archive access is off");
		}
		for (size_t bad : {size_t(N), size_t(N) + 1, size_t(65536) * 2}) V_CHECK(guarded([&] { a->OpenStream(bad); }) == Out::Err && guarded([&] { a->GetName(bad); }) == Out::Err, "index " << bad << " accepted by an archive of " << N << " members");
		V_CHECK(rm.GetResourceStream(nameOf(N), true) == nullptr && !a->Contains(nameOf(N)), "a name beyond the last member was found");
	}
	remove(ap.c_str()); rmdir(dir.c_str());
	st.cls(clm ? "many_members:clm" : "many_members:vol"); st.nt(hmix(N, clm) ^ 0x17AA);
}

void run_sweep(Stats& st) {
	volgen::root();
	for (unsigned k = 0; k < 2; ++k) if (sw("many_members", k)) many_members(k, st);
	// directed layouts: every pool name loose vs in one archive vs in two archives, in every case variant of the query
	std::vector<uint8_t> tp(256, 0);
	for (size_t pi = 0; pi < poolN; ++pi) for (unsigned where = 0; where < 4; ++where) {
		if (!sw("directed", pi, where)) continue;
		Layout L; L.dir = std::to_string(5000 + pi * 4 + where);
		std::string n = pool[pi]; std::string nclm = n.substr(0, n.find('.'));
		if (where == 0 || where == 3) L.loose[n] = content_for("loose", n, 1);
		if (where >= 1) { Arch a; a.isVol = true; a.loaded = true; a.file = "1.vol"; a.names = {volgen::case_variant(n, 5)}; a.data = {content_for("1.vol", n, 2)}; L.archs.push_back(a); }
		if (where >= 2) { Arch a; a.isVol = true; a.loaded = true; a.file = "2.vol"; a.names = {volgen::case_variant(n, 10)}; a.data = {content_for("2.vol", n, 3)}; L.archs.push_back(a);
			if (!nclm.empty()) { Arch c; c.isVol = false; c.loaded = true; c.file = "3.clm"; c.names = {nclm}; c.data = {content_for("3.clm", nclm, 4)}; L.archs.push_back(c); } }
		for (unsigned v = 0; v < 6; ++v) { for (size_t i = 0; i < tp.size(); ++i) tp[i] = uint8_t((i * 37 + v * 11 + pi) & 0xFF); Tape t(tp); manager_case(L, t, st, v & 1); }
	}
	st.exhaustive = true;
}

void write_seeds(const std::string&) {}
