// C02 — written VOLs obey the format; format-conforming VOLs are read back.
#include "vol_common.h"
#include "ref/ref_lzh.h"
#include "Archive/VolFile.h"
#include <cstdio>
#include <sys/types.h>

using namespace verif;
using namespace volgen;
using namespace OP2Utility::Archive;
const char* const PROP_ID = "C02";

namespace {
// (i) archives written by the library, judged by the strict reference decoder
void written_case(Tape& t, Stats& st, std::vector<InFile> fs) {
	adopted_listing().clear();
	materialise(fs, t);
	std::vector<std::string> paths; for (auto& f : fs) paths.push_back(f.spelled);
	for (size_t i = paths.size(); i > 1; --i) std::swap(paths[i - 1], paths[t.below(i)]);
	mkdirs("%o/"); std::string out = "%o/w.vol"; remove(out.c_str());
	VolFile::CreateArchive(out, paths);
	std::vector<uint8_t> bytes; read_file(out, bytes);
	std::vector<refvol::Entry> ents;
	{ bool hi = false; for (auto& f : fs) if (refvol::has_high_byte(f.name)) hi = true; refvol::Loose L; if (hi && refvol::locate(bytes, L) && L.names.size() == fs.size()) adopted_listing() = L.names; }   // names with bytes >= 0x80: the strict decoder judges the order (some consistent byte ranking), the member-by-member comparison follows the listing
	std::string err = refvol::parse_strict(bytes, ents);
	V_CHECK(err.empty(), "archive written by the library is not well-formed: " << err << " (" << fs.size() << " members, " << bytes.size() << " bytes, head " << hex(bytes, 40) << ")");
	auto order = expected_order(fs);
	V_CHECK(ents.size() == fs.size(), "reference decoder finds " << ents.size() << " entries for " << fs.size() << " inputs");
	for (size_t i = 0; i < order.size(); ++i) {
		const InFile& f = fs[order[i]];
		V_CHECK(ents[i].name == f.name, "entry " << i << " name " << jstr(ents[i].name) << " != " << jstr(f.name));
		V_CHECK(ents[i].size == f.content.size() && ents[i].vblkLen == f.content.size(), "entry " << i << " size fields " << ents[i].size << "/" << ents[i].vblkLen << " != " << f.content.size());
		V_CHECK(ents[i].comp == refvol::CompUncompressed, "entry " << i << " compression code " << ents[i].comp);
		V_CHECK(std::equal(f.content.begin(), f.content.end(), bytes.begin() + ents[i].blockOffset + 8), "block " << i << " payload differs from the input file");
	}
	st.cls("written:files:" + std::to_string(std::min<size_t>(fs.size(), 8)));
	if (!fs.empty()) { uint64_t h = 1; for (auto& f : fs) h = fnv1a(f.name.data(), f.name.size(), hmix(h, f.content.size())); st.nt(h); }
	for (auto& f : fs) remove((f.dir + f.name).c_str());
	remove(out.c_str()); adopted_listing().clear();
}

// a file set the creation may refuse (two names equal ignoring case, in different directories): if the library writes an archive for it
// all the same, that archive is one "the library writes" and must be well-formed - which no archive holding both names can be
void clash_case(Tape& t, Stats& st, std::vector<InFile> fs) {
	if (fs.empty()) { InFile f; f.name = "a.txt"; f.content = {1, 2, 3}; fs.push_back(f); }
	InFile twin = fs[t.below(fs.size())]; twin.name = case_variant(twin.name, t.u64()); twin.dir = twin.dir.empty() ? "%d0/" : ""; twin.content = t.bytes(t.below(9));
	fs.insert(fs.begin() + t.below(fs.size() + 1), twin);
	materialise(fs, t);
	std::vector<std::string> paths; for (auto& f : fs) paths.push_back(f.spelled);
	mkdirs("%o/"); std::string out = "%o/w.vol"; remove(out.c_str());
	Out o = guarded([&] { VolFile::CreateArchive(out, paths); });
	if (o == Out::Ok) {
		std::vector<uint8_t> bytes; read_file(out, bytes); std::vector<refvol::Entry> ents;
		std::string err = refvol::parse_strict(bytes, ents);
		V_CHECK(err.empty(), "archive written by the library (from inputs with two names equal ignoring case) is not well-formed: " << err);
	}
	st.cls(o == Out::Ok ? "clash:written" : "clash:refused"); st.nt(hmix(fs.size(), fnv1a(twin.name.data(), twin.name.size())) ^ 0xC1A);
	for (auto& f : fs) remove((f.dir + f.name).c_str());
	remove(out.c_str());
}

struct RefArchive { std::vector<refvol::Member> ms; std::vector<std::vector<uint8_t>> expanded; refvol::EncodeOpts o; };

RefArchive gen_ref(Tape& t) {
	RefArchive a;
	size_t n = t.below(11);
	for (size_t i = 0; i < n; ++i) {
		refvol::Member m; m.name = gen_name(t, 16);
		bool clash; do { clash = false; for (auto& g : a.ms) if (ieq(g.name, m.name)) { clash = true; m.name += char('0' + i % 10); } } while (clash);
		std::vector<uint8_t> plain;
		if (t.below(3) == 0) { // LZH member
			std::vector<reflzh::Token> toks; size_t k = 1 + t.below(60);
			for (size_t j = 0; j < k; ++j) { if (t.below(3) == 0) toks.push_back({true, 0, 3 + unsigned(t.below(58)), 1 + unsigned(t.below(4096))}); else toks.push_back({false, t.u8(), 0, 0}); }
			m.payload = reflzh::encode(toks, plain);
			plain = reflzh::decode(m.payload).out;
			m.comp = refvol::CompLZH; m.sizeField = uint32_t(plain.size());
		} else if (t.below(8) == 0) {   // the format's other two kinds (RLE 0x101, LZ 0x102): listed and streamed like any member; the library cannot expand them
			m.payload = t.expand(t.below(300)); m.comp = t.flag() ? 0x101 : 0x102; m.sizeField = uint32_t(m.payload.size() + t.below(1000)); plain.clear();
		} else { m.payload = t.expand(gen_size(t) % 5000); m.comp = refvol::CompUncompressed; m.sizeField = uint32_t(m.payload.size()); plain = m.payload; }
		a.ms.push_back(m); a.expanded.push_back(plain);
	}
	// conforming archives are in binary-search order
	std::vector<size_t> idx(a.ms.size()); for (size_t i = 0; i < idx.size(); ++i) idx[i] = i;
	std::sort(idx.begin(), idx.end(), [&](size_t x, size_t y) { return refvol::icmp(a.ms[x].name, a.ms[y].name) < 0; });
	RefArchive b; for (size_t i : idx) { b.ms.push_back(a.ms[i]); b.expanded.push_back(a.expanded[i]); }
	b.o.unusedSlots = t.below(3) == 0 ? 1 + unsigned(t.below(5)) : 0;
	b.o.unusedFill = t.u32();
	b.o.indexLenExtra = t.below(4) == 0 ? 1 + unsigned(t.below(13)) : 0;
	b.o.namePadWords = t.below(4) == 0 ? 1 + unsigned(t.below(2)) : 0;
	return b;
}

void read_case(const RefArchive& a0, Stats& st, bool sample, Tape* tp = nullptr, const unsigned* fixedOps = nullptr) {
	RefArchive a = a0;
	std::vector<refvol::Extent> ext;
	// in a quarter of the archives with unused slots their stale block offset names a real block (the first member's)
	if (a.o.unusedSlots && (a.o.unusedFill & 3) == 0 && !a.ms.empty()) { refvol::encode(a.ms, a.o, &ext); a.o.unusedFill = ext[0].blockOffset; st.cls("read:unused_slot_points_at_a_real_block"); }
	std::vector<uint8_t> bytes = refvol::encode(a.ms, a.o, &ext);
	std::string vp = "%o/r.vol"; mkdirs("%o/"); write_file(vp, bytes);
	if (sample && st.want_sample()) {
		std::string s = "{\"reference_vol\":{\"members\":[";
		for (size_t i = 0; i < a.ms.size() && i < 5; ++i) s += std::string(i ? "," : "") + "{\"name\":" + jstr(a.ms[i].name) + ",\"stored\":" + std::to_string(a.ms[i].payload.size()) + ",\"lzh\":" + (a.ms[i].comp == refvol::CompLZH ? "true" : "false") + "}";
		s += "],\"unused_slots\":" + std::to_string(a.o.unusedSlots) + ",\"index_len_extra\":" + std::to_string(a.o.indexLenExtra) + ",\"name_pad_words\":" + std::to_string(a.o.namePadWords) + "}}";
		st.sample(s);
	}
	std::unique_ptr<VolFile> v; std::string what;
	Out o = guarded([&] { v = std::make_unique<VolFile>(vp); }, &what);
	if (a.o.indexLenExtra) {
		st.cls("read:index_length_covers_padding(beta)");
		if (o == Out::Err) { st.cls("read:beta_refused_cleanly"); return; }     // arguable conformance: a clean refusal is accepted
	} else V_CHECK(o == Out::Ok, "conforming reference-encoded archive refused: " << what << " (members " << a.ms.size() << ", unused slots " << a.o.unusedSlots << ", name pad words " << a.o.namePadWords << ")");
	V_CHECK(v->GetCount() == a.ms.size(), "archive opened with " << v->GetCount() << " members, encoder wrote " << a.ms.size() << " (+" << a.o.unusedSlots << " unused trailing slots)");
	for (size_t i = 0; i < a.ms.size(); ++i) {
		const auto& m = a.ms[i];
		V_CHECK(v->GetName(i) == m.name, "member " << i << " name " << jstr(v->GetName(i)) << " != " << jstr(m.name));
		V_CHECK(v->GetSize(i) == m.sizeField, "member " << i << " size " << v->GetSize(i) << " != " << m.sizeField);
		V_CHECK(uint16_t(v->GetCompressionCode(i)) == m.comp, "member " << i << " compression kind " << uint16_t(v->GetCompressionCode(i)) << " != " << m.comp);
		auto s = v->OpenStream(i);
		V_CHECK(s->Length() == m.payload.size(), "member " << i << " stream length " << s->Length() << " != stored payload " << m.payload.size());
		std::vector<uint8_t> got(m.payload.size()); s->Read(got.data(), got.size());
		V_CHECK(got == m.payload, "member " << i << " stream bytes differ from the stored payload");
		V_CHECK(v->GetIndex(m.name) == i, "GetIndex of member " << i);
		if (m.comp != refvol::CompUncompressed && m.comp != refvol::CompLZH) {   // unsupported kind: extraction may be refused, but the archive object stays usable
			guarded([&] { v->ExtractFile(i, "%o/x.bin"); }); st.cls("read:rle_or_lz_member");
			V_CHECK(v->GetName(i) == m.name && v->GetSize(i) == m.sizeField, "archive object unusable after extracting a member of an unsupported kind");
			continue;
		}
		std::string xp = "%o/x.bin"; v->ExtractFile(i, xp);
		std::vector<uint8_t> ex; read_file(xp, ex);
		V_CHECK(ex == a.expanded[i], "ExtractFile of member " << i << (m.comp == refvol::CompLZH ? " (LZH)" : "") << " wrote " << ex.size() << " bytes, expected " << a.expanded[i].size());
	}
	V_CHECK(guarded([&] { v->GetName(a.ms.size()); }) == Out::Err, "GetName(count) accepted (unused slot exposed?)");
	// unused trailing slots are not members: every per-member call refuses their indices
	for (size_t bad = a.ms.size(); bad <= a.ms.size() + a.o.unusedSlots; ++bad) {
		V_CHECK(guarded([&] { v->GetName(bad); }) == Out::Err, "GetName(" << bad << ") accepted with " << a.ms.size() << " members (+" << a.o.unusedSlots << " unused slots)");
		V_CHECK(guarded([&] { v->GetSize(bad); }) == Out::Err, "GetSize(" << bad << ") accepted with " << a.ms.size() << " members (+" << a.o.unusedSlots << " unused slots)");
		V_CHECK(guarded([&] { v->GetCompressionCode(bad); }) == Out::Err, "GetCompressionCode(" << bad << ") accepted with " << a.ms.size() << " members (+" << a.o.unusedSlots << " unused slots)");
		V_CHECK(guarded([&] { v->OpenStream(bad); }) == Out::Err, "OpenStream(" << bad << ") accepted with " << a.ms.size() << " members (+" << a.o.unusedSlots << " unused slots)");
		V_CHECK(guarded([&] { v->ExtractFile(bad, "%o/x.bin"); }) == Out::Err, "ExtractFile(" << bad << ") accepted with " << a.ms.size() << " members (+" << a.o.unusedSlots << " unused slots)");
	}
	// the convenience entry point: ExtractAllFiles writes, for every member, what ExtractFile writes (only when every member is of a kind the library expands)
	{ bool all = !a.ms.empty(); for (auto& m : a.ms) if (m.comp != refvol::CompUncompressed && m.comp != refvol::CompLZH) all = false;
	  if (all) { mkdirs("%o/all/"); for (auto& m : a.ms) remove(("%o/all/" + m.name).c_str());
	    std::string wa; Out oa = guarded([&] { v->ExtractAllFiles("%o/all"); }, &wa);
	    V_CHECK(oa == Out::Ok, "ExtractAllFiles of a conforming archive threw: " << wa);
	    for (size_t i = 0; i < a.ms.size(); ++i) { std::vector<uint8_t> ex; read_file("%o/all/" + a.ms[i].name, ex); remove(("%o/all/" + a.ms[i].name).c_str()); V_CHECK(ex == a.expanded[i], "ExtractAllFiles wrote " << ex.size() << " bytes for member " << i << " " << jstr(a.ms[i].name) << (a.ms[i].comp == refvol::CompLZH ? " (LZH)" : "") << ", expected " << a.expanded[i].size() << " - or other bytes"); }
	    st.cls("read:extract_all_files"); } }
	// a session of calls in tape-chosen (or enumerated) order on the same object: streams and extractions of the same members again, refused calls between them
	if (!a.ms.empty() && (tp || fixedOps)) {
		std::vector<std::string> names; std::vector<std::vector<uint8_t>> streams; std::vector<char> can;
		for (auto& m : a.ms) { names.push_back(m.name); streams.push_back(m.payload); can.push_back(m.comp == refvol::CompUncompressed || m.comp == refvol::CompLZH); }
		Session<VolFile> se{*v, names, streams, [&](size_t i, const std::string& p) { std::vector<uint8_t> ex; read_file(p, ex); V_CHECK(ex == a.expanded[i], "session: extraction of member " << i << (a.ms[i].comp == refvol::CompLZH ? " (LZH)" : "") << " wrote " << ex.size() << " bytes, expected " << a.expanded[i].size() << " - or other bytes"); }, can, {}, {}};
		if (fixedOps) { typedef Session<VolFile> S; const unsigned ops[] = {S::ExtractGood, S::ExtractOntoDirectory, S::StreamWhole, S::StreamHold}; for (int k = 0; k < 3; ++k) se.step(ops[fixedOps[k] / 3], fixedOps[k] % 3, unsigned(k)); for (size_t i = 0; i < names.size(); ++i) { se.step(S::StreamWhole, i, 0); se.step(S::ExtractGood, i, 0); } se.finish(); }
		else se.run(*tp, st, unsigned(tp->below(13)));
	}
	if (a.o.unusedSlots) st.cls("read:unused_trailing_slots");
	if (a.o.namePadWords) st.cls("read:extra_name_padding");
	bool lzh = false; for (auto& m : a.ms) if (m.comp == refvol::CompLZH) lzh = true;
	if (lzh) st.cls("read:lzh_member");
	st.cls("read:members:" + std::to_string(std::min<size_t>(a.ms.size(), 8)));
	if (!a.ms.empty()) { uint64_t h = hmix(a.o.unusedSlots, a.o.indexLenExtra * 8 + a.o.namePadWords); for (auto& m : a.ms) h = fnv1a(m.name.data(), m.name.size(), fnv1a(m.payload.data(), m.payload.size(), h)); st.nt(h ^ 0x22); }
}
// A conforming archive larger than 2 GiB, written as a sparse file by the harness: a first member of 'big' bytes (a hole, with marker bytes at
// both ends) followed by two small members whose blocks start around and beyond 2^31.  Names, sizes, streams and extraction of the late members
// must work like anywhere else (offsets are 32-bit fields; nothing in the format stops at 2^31).
void huge_sparse_case(uint32_t big, Stats& st) {
	std::vector<refvol::Member> ms(3); ms[0].name = "a_huge.bin"; ms[1].name = "m_late.txt"; ms[2].name = "z_last.dat";
	ms[1].payload = {'l', 'a', 't', 'e', '!', 1, 2}; ms[2].payload.assign(5000, 0); for (size_t i = 0; i < 5000; ++i) ms[2].payload[i] = uint8_t(i * 7 + 3);
	for (auto& m : ms) m.sizeField = uint32_t(m.payload.size());
	std::vector<uint8_t> small = refvol::encode(ms);              // layout with an EMPTY first member: header, then the three blocks
	refvol::Loose L; V_CHECK(refvol::locate(small, L) && L.entries.size() == 3, "harness: reference layout");
	uint32_t first = L.entries[0].blockOffset; uint64_t shift = (uint64_t(big) + 3) & ~uint64_t(3);
	V_CHECK(uint64_t(L.entries[2].blockOffset) + shift + 8 + 5000 < (uint64_t(1) << 32), "harness: offsets must fit 32 bits");
	std::vector<uint8_t> head(small.begin(), small.begin() + first);
	auto patch32 = [&](size_t at, uint32_t v) { for (int j = 0; j < 4; ++j) head[at + size_t(j)] = uint8_t(v >> (8 * j)); };
	patch32(L.indexAt + 8, big);                                                                  // entry 0: size
	patch32(L.indexAt + 14 + 4, uint32_t(L.entries[1].blockOffset + shift)); patch32(L.indexAt + 28 + 4, uint32_t(L.entries[2].blockOffset + shift));
	std::string vp = "%o/huge.vol"; mkdirs("%o/"); remove(vp.c_str());
	FILE* f = fopen(vp.c_str(), "wb"); V_CHECK(f, "harness: cannot create the sparse archive");
	fwrite(head.data(), 1, head.size(), f);
	uint8_t vb[8] = {'V', 'B', 'L', 'K', uint8_t(big), uint8_t(big >> 8), uint8_t(big >> 16), uint8_t((big >> 24) | 0x80)}; fwrite(vb, 1, 8, f);
	const uint8_t markA[4] = {0xA1, 0xA2, 0xA3, 0xA4}, markZ[4] = {0xF1, 0xF2, 0xF3, 0xF4};
	fwrite(markA, 1, 4, f); fseeko(f, off_t(first) + 8 + off_t(big) - 4, SEEK_SET); fwrite(markZ, 1, 4, f);
	fseeko(f, off_t(first) + 8 + off_t(shift), SEEK_SET); fwrite(small.data() + first + 8, 1, small.size() - first - 8, f);   // the two late blocks, verbatim
	fclose(f);
	std::string what; std::unique_ptr<VolFile> v;
	Out o = guarded([&] { v = std::make_unique<VolFile>(vp); }, &what);
	V_CHECK(o == Out::Ok, "conforming archive of " << (uint64_t(first) + 8 + shift + small.size() - first - 8) << " bytes (first member " << big << " bytes) refused: " << what);
	V_CHECK(v->GetCount() == 3, "count");
	for (size_t i = 0; i < 3; ++i) { V_CHECK(v->GetName(i) == ms[i].name && v->GetIndex(ms[i].name) == i, "member " << i << " name / lookup"); V_CHECK(v->GetSize(i) == (i ? ms[i].payload.size() : big), "member " << i << " size " << v->GetSize(i)); }
	for (size_t i : {size_t(1), size_t(2), size_t(1)}) {
		std::unique_ptr<OP2Utility::Stream::BidirectionalReader> s;
		o = guarded([&] { s = v->OpenStream(i); }, &what);
		V_CHECK(o == Out::Ok, "OpenStream(" << i << ") of a member whose block starts at file offset " << (uint64_t(L.entries[i].blockOffset) + shift) << " threw: " << what);
		V_CHECK(s->Length() == ms[i].payload.size(), "late member stream length"); std::vector<uint8_t> got(ms[i].payload.size()); s->Read(got.data(), got.size());
		V_CHECK(got == ms[i].payload, "stream of a member beyond 2 GiB delivers other bytes");
		std::string xp = "%o/huge_x.bin"; o = guarded([&] { v->ExtractFile(i, xp); }, &what); V_CHECK(o == Out::Ok, "ExtractFile(" << i << ") beyond 2 GiB threw: " << what);
		std::vector<uint8_t> ex; read_file(xp, ex); remove(xp.c_str()); V_CHECK(ex == ms[i].payload, "extraction of a member beyond 2 GiB wrote other bytes");
		auto sn = static_cast<ArchiveFile&>(*v).OpenStream(case_variant(ms[i].name, 0x15)); std::vector<uint8_t> gn(size_t(sn->Length())); sn->Read(gn.data(), gn.size()); V_CHECK(gn == ms[i].payload, "OpenStream by name beyond 2 GiB");
	}
	{ auto s0 = v->OpenStream(0); V_CHECK(s0->Length() == big, "huge member stream length " << s0->Length()); uint8_t b4[4]; s0->Read(b4, 4); V_CHECK(!memcmp(b4, markA, 4), "first bytes of the huge member");
	  s0->Seek(uint64_t(big) - 4); s0->Read(b4, 4); V_CHECK(!memcmp(b4, markZ, 4), "last bytes of the huge member (position " << uint64_t(big) - 4 << ")"); V_CHECK(s0->Position() == big, "position at the end of the huge member"); }
	v.reset(); remove(vp.c_str());
	st.cls("read:archive_beyond_2GiB(sparse)"); st.nt(hmix(big, 0x2619));
}
} // namespace

void run_case(Tape& t, Stats& st) {
	root(); adopted_listing().clear();
	if (t.below(16) == 0) { clash_case(t, st, gen_files(t, 6)); return; }
	if (t.below(3) == 0) { auto fs = gen_files(t, g_thorough ? 30 : 10); if (st.want_sample()) st.sample("{\"library_written\":" + render(fs, "%o/w.vol") + "}"); written_case(t, st, fs); }
	else { RefArchive ra = gen_ref(t); read_case(ra, st, true, &t); }
}

void run_sweep(Stats& st) {
	root();
	std::vector<uint8_t> tp(64, 0);
	// (i) residue pairs as in C01, judged by the strict decoder
	for (unsigned sizeRes = 0; sizeRes < 4; ++sizeRes) for (unsigned tblRes = 0; tblRes < 4; ++tblRes) for (unsigned nfiles = 0; nfiles <= 3; ++nfiles) {
		if (!sw("written_residues", sizeRes, tblRes, nfiles)) continue;
		std::vector<InFile> fs; size_t tbl = 0;
		for (unsigned i = 0; i < nfiles; ++i) {
			InFile f; f.name = std::string(1, char('A' + i)) + (i % 2 ? "b" : "_");
			if (i + 1 == nfiles) while ((tbl + f.name.size() + 1) % 4 != tblRes) f.name += "z";
			tbl += f.name.size() + 1;
			f.content.resize(4 * (i + 1) + sizeRes, uint8_t(0x40 + i));
			fs.push_back(f);
		}
		Tape t(tp); written_case(t, st, fs);
	}
	for (unsigned k = 0; k < 6; ++k) { if (!sw("clash", k)) continue; std::vector<uint8_t> tq(64); for (size_t i = 0; i < tq.size(); ++i) tq[i] = uint8_t(i * 29 + k * 7 + 1); Tape t(tq);
		std::vector<InFile> fs; for (unsigned i = 0; i < k % 3 + 1; ++i) { InFile f; f.name = std::string(1, char('m' + i)) + "ember.txt"; f.content.assign(5 + i, uint8_t(i)); fs.push_back(f); } clash_case(t, st, fs); }
	// (ii) reference archives: member count x unused slots x index-length-extra x name padding x LZH
	for (unsigned n = 0; n <= 4; ++n) for (unsigned unused = 0; unused <= 3; ++unused) for (unsigned extra = 0; extra <= 13; ++extra) for (unsigned pad = 0; pad <= 1; ++pad) {
		if (!sw("read_matrix", n, unused, extra, pad)) continue;
		RefArchive a;
		for (unsigned i = 0; i < n; ++i) {
			refvol::Member m; m.name = std::string("m") + char('a' + i) + (i % 2 ? ".TXT" : "_x");
			std::vector<uint8_t> plain;
			if (i == 1) { std::vector<reflzh::Token> toks; for (unsigned k = 0; k < 30; ++k) toks.push_back({false, uint8_t('a' + k % 7), 0, 0}); toks.push_back({true, 0, 20, 7}); m.payload = reflzh::encode(toks, plain); plain = reflzh::decode(m.payload).out; m.comp = refvol::CompLZH; m.sizeField = uint32_t(plain.size()); }
			else { m.payload.assign(3 * i + extra % 4, uint8_t(i + 1)); m.sizeField = uint32_t(m.payload.size()); plain = m.payload; }
			a.ms.push_back(m); a.expanded.push_back(plain);
		}
		a.o.unusedSlots = unused; a.o.unusedFill = 0xDEADBEEF; a.o.indexLenExtra = extra; a.o.namePadWords = pad;
		read_case(a, st, false);
	}
	// archives beyond 2 GiB (sparse): the second member's block starts below, at and beyond 2^31
	for (uint32_t big : {0x7FFFFF00u, 0x7FFFFFB0u, 0x7FFFFFFCu, 0x7FFFFFFFu}) { if (!sw("huge_sparse", big)) continue; huge_sparse_case(big, st); }
	// every three-call session over {extract, extract onto a directory, stream, stream kept open} x three members (plain 5 bytes, LZH, plain 8 bytes
	// - a multiple of four, so the next block follows without padding) on one object, then a closing pass over all members
	for (unsigned x = 0; x < 12; ++x) for (unsigned y = 0; y < 12; ++y) for (unsigned z = 0; z < 12; ++z) {
		if (!sw("ref_session3", x, y, z)) continue;
		RefArchive a;
		for (unsigned i = 0; i < 3; ++i) {
			refvol::Member m; m.name = std::string("s") + char('a' + i) + (i % 2 ? ".Bin" : "_y"); std::vector<uint8_t> plain;
			if (i == 1) { std::vector<reflzh::Token> toks; for (unsigned k = 0; k < 12; ++k) toks.push_back({false, uint8_t('k' + k % 5), 0, 0}); toks.push_back({true, 0, 9, 40}); m.payload = reflzh::encode(toks, plain); plain = reflzh::decode(m.payload).out; m.comp = refvol::CompLZH; m.sizeField = uint32_t(plain.size()); }
			else { m.payload.assign(i ? 5 : 8, uint8_t(0x30 + i)); m.payload[0] = uint8_t(i + 1); m.sizeField = uint32_t(m.payload.size()); plain = m.payload; }
			a.ms.push_back(m); a.expanded.push_back(plain);
		}
		const unsigned ops[3] = {x, y, z};
		read_case(a, st, false, nullptr, ops);
	}
	st.exhaustive = true;
}

void write_seeds(const std::string&) {}
