// Shared by C01/C02/C18: generator of input file sets for VolFile::CreateArchive and helpers.
#pragma once
#include "common/verif.h"
#include "ref/ref_vol.h"
#include <unistd.h>
#include <sys/stat.h>
#include <algorithm>

namespace volgen {
using namespace verif;

struct InFile {
	std::string name;        // final path component
	std::string dir;         // directory relative to the scratch root, "" or "%d0/" or "%d1/%sub/"
	std::string spelled;     // the spelling handed to CreateArchive
	std::vector<uint8_t> content;
};

inline const char* name_punct() { return "_^[]`-.,+=@#~!(){} "; }

inline bool ieq_reserved(const std::string& a, const char* b) { return refvol::ieq(a, b); }

inline std::string gen_name(Tape& t, size_t maxlen = 24) {
	size_t n = 1 + t.below(maxlen);
	if (t.below(3) == 0) n = 1 + t.below(4);
	std::string s;
	for (size_t i = 0; i < n; ++i) {
		switch (t.below(6)) {
		case 0: case 1: s.push_back(char('a' + t.below(26))); break;
		case 2: s.push_back(char('A' + t.below(26))); break;
		case 3: s.push_back(char('0' + t.below(10))); break;
		case 4: { const char* p = name_punct(); s.push_back(p[t.below(strlen(p))]); break; }
		default: s.push_back(t.flag() ? 'a' : 'A'); break;
		}
	}
	if (s == "." || s == "..") s += "x";
	// never shadow the directories the harness itself creates below the scratch root
	for (const char* r : {"d0", "d1", "sub", "in", "o", "x", "all"}) if (ieq_reserved(s, r)) s += "_";
	return s;
}

inline size_t gen_size(Tape& t) {
	switch (t.below(12)) {
	case 0: return 0; case 1: return 1; case 2: return 2; case 3: return 3; case 4: return 4;
	case 5: case 6: return 5 + t.below(60);
	case 7: return 131071 + t.below(5);
	case 8: return 262143 + t.below(4);
	case 9: return t.below(g_thorough ? 300001 : 40001);
	default: return t.below(300);
	}
}

inline bool ieq(const std::string& a, const std::string& b) { return refvol::ieq(a, b); }

inline std::string case_variant(const std::string& s, uint64_t mask) {
	std::string r = s;
	for (size_t i = 0; i < r.size(); ++i) if ((mask >> (i % 64)) & 1) { char& c = r[i]; if (c >= 'a' && c <= 'z') c = char(c - 32); else if (c >= 'A' && c <= 'Z') c = char(c + 32); }
	return r;
}

// one-time: chdir into the scratch root so that relative spellings can be exercised
inline const std::string& root() {
	static std::string r;
	if (r.empty()) { r = scratch_dir(); if (chdir(r.c_str()) != 0) { perror("chdir"); _exit(2); } }
	return r;
}

inline void mkdirs(const std::string& rel) {
	std::string acc;
	for (char c : rel) { acc.push_back(c); if (c == '/') mkdir(acc.c_str(), 0700); }
}

inline std::string spell(Tape& t, const InFile& f) {
	std::string rel = f.dir + f.name;
	switch (t.below(6)) {
	case 0: return rel;
	case 1: return "./" + rel;
	case 2: return f.dir.empty() ? rel : f.dir.substr(0, f.dir.size() - 1) + "//" + f.name;
	case 3: return f.dir.empty() ? "./" + rel : f.dir + "./" + f.name;
	case 4: return root() + "/" + rel;
	default: return rel;
	}
}

// Generates a set of files with names distinct ignoring case (unless allowDup), writes them below the scratch root.
inline std::vector<InFile> gen_files(Tape& t, size_t maxFiles) {
	root();
	std::vector<InFile> fs;
	size_t n = t.below(maxFiles + 1);
	static const char* dirs[] = {"", "", "%d0/", "%d1/%sub/"};
	for (size_t i = 0; i < n; ++i) {
		InFile f;
		f.name = gen_name(t);
		// one later name in four extends an earlier one (possibly in another letter case): prefix-related names sit next to each other in the
		// sorted index and are where a lookup or comparison that stops at the shorter length goes wrong
		if (i && t.below(4) == 0) { const std::string& base = fs[t.below(fs.size())].name; if (base.size() < 40) f.name = case_variant(base, t.u8()) + t.pick<std::string>({".txt", ".old", "x", "_", "0", ".", " "}); }
		// one later name in ten is the 'twin' of an earlier one: the same text with '{' for '[', '}' for ']' or '~' for '^' (bytes that a sloppy
		// case fold maps onto each other); the two are different members and every lookup must keep them apart
		if (i && t.below(10) == 0) {
			InFile& g0 = fs[t.below(fs.size())]; size_t at = g0.name.find_first_of("{}~[]^");
			if (at == std::string::npos && g0.name.size() < 30) { g0.name += '['; at = g0.name.size() - 1; bool c2; do { c2 = false; for (auto& g : fs) if (&g != &g0 && ieq(g.name, g0.name)) { c2 = true; g0.name.insert(0, "t"); ++at; } } while (c2); }
			if (at != std::string::npos) { f.name = g0.name; char& ch = f.name[at]; ch = ch == '{' ? '[' : ch == '[' ? '{' : ch == '}' ? ']' : ch == ']' ? '}' : ch == '~' ? '^' : '~'; }
		}
		bool clash;
		do { clash = false; for (auto& g : fs) if (ieq(g.name, f.name)) { clash = true; f.name += char('0' + i % 10); } } while (clash);
		f.dir = dirs[t.below(4)];
		f.content = t.expand(gen_size(t));
		fs.push_back(f);
	}
	return fs;
}

inline void materialise(std::vector<InFile>& fs, Tape& t) {
	for (auto& f : fs) { mkdirs("%in/" + f.dir); f.dir = "%in/" + f.dir; write_file(f.dir + f.name, f.content); f.spelled = spell(t, f); }
}

inline std::vector<size_t> expected_order(const std::vector<InFile>& fs) {
	std::vector<size_t> idx(fs.size());
	for (size_t i = 0; i < idx.size(); ++i) idx[i] = i;
	std::sort(idx.begin(), idx.end(), [&](size_t a, size_t b) { return refvol::icmp(fs[a].name, fs[b].name) < 0; });
	return idx;
}

inline std::string render(const std::vector<InFile>& fs, const std::string& out) {
	std::string s = "{\"files\":[";
	for (size_t i = 0; i < fs.size() && i < 6; ++i) s += std::string(i ? "," : "") + "{\"path\":" + jstr(fs[i].spelled) + ",\"size\":" + std::to_string(fs[i].content.size()) + "}";
	if (fs.size() > 6) s += ",\"...\"";
	return s + "],\"n\":" + std::to_string(fs.size()) + ",\"output\":" + jstr(out) + "}";
}
} // namespace volgen
