// Shared by C01/C02/C18: generator of input file sets for VolFile::CreateArchive and helpers.
#pragma once
#include "common/verif.h"
#include "ref/ref_vol.h"
#include <unistd.h>
#include <sys/stat.h>
#include <algorithm>
#include <functional>
#include <memory>
#include "Archive/ArchiveFile.h"

namespace volgen {
using namespace verif;

struct InFile {
	std::string name;        // final path component
	std::string dir;         // directory relative to the scratch root, "" or "%d0/" or "%d1/%sub/"
	std::string spelled;     // the spelling handed to CreateArchive
	std::vector<uint8_t> content;
};

inline const char* name_punct() { return "_^[]`-.,+=@#~!(){} \\';&$\\"; }   // incl. the backslash: an ordinary file-name character here, not a separator

inline bool ieq_reserved(const std::string& a, const char* b) { return refvol::ieq(a, b); }

inline std::string gen_name(Tape& t, size_t maxlen = 24) {
	size_t n = 1 + t.below(maxlen);
	if (t.below(3) == 0) n = 1 + t.below(4);
	std::string s;
	for (size_t i = 0; i < n; ++i) {
		switch (t.below(6)) {
		case 0: case 1: s.push_back(char('a' + t.below(26))); break;
		case 2: s.push_back(char('A' + t.below(26))); break;
		case 3: s.push_back(char('0' + t.below(10))); break;
		case 4: { const char* p = name_punct(); s.push_back(p[t.below(strlen(p))]); break; }
		default: { uint8_t b = t.u8();   // mostly 'a' / 'A'; one in sixteen: a byte (sequence) >= 0x80 - UTF-8 letters, a combining mark, lone 0x80 / 0xFF
			if ((b & 0xF0) == 0xF0) { static const char* hi[8] = {"\xC3\xA9", "\xCC\x81", "\x80", "\xFF", "\xE2\x82\xAC", "\xC3\x89", "\xDF", "\xA0"}; s += hi[(b >> 1) & 7]; }
			else s.push_back((b & 1) ? 'a' : 'A'); break; }
		}
	}
	if (s == "." || s == "..") s += "x";
	// never shadow the directories the harness itself creates below the scratch root
	for (const char* r : {"d0", "d1", "sub", "in", "o", "x", "all"}) if (ieq_reserved(s, r)) s += "_";
	return s;
}

inline size_t gen_size(Tape& t) {
	switch (t.below(12)) {
	case 0: return 0; case 1: return 1; case 2: return 2; case 3: return 3; case 4: return 4;
	case 5: case 6: return 5 + t.below(60);
	case 7: return 131071 + t.below(5);
	case 8: return 262143 + t.below(4);
	case 9: return t.below(g_thorough ? 300001 : 40001);
	default: return t.below(300);
	}
}

inline bool ieq(const std::string& a, const std::string& b) { return refvol::ieq(a, b); }

inline std::string case_variant(const std::string& s, uint64_t mask) {
	std::string r = s;
	for (size_t i = 0; i < r.size(); ++i) if ((mask >> (i % 64)) & 1) { char& c = r[i]; if (c >= 'a' && c <= 'z') c = char(c - 32); else if (c >= 'A' && c <= 'Z') c = char(c + 32); }
	return r;
}

// one-time: chdir into the scratch root so that relative spellings can be exercised
inline const std::string& root() {
	static std::string r;
	if (r.empty()) { r = scratch_dir(); if (chdir(r.c_str()) != 0) { perror("chdir"); _exit(2); } }
	return r;
}

inline void mkdirs(const std::string& rel) {
	std::string acc;
	for (char c : rel) { acc.push_back(c); if (c == '/') mkdir(acc.c_str(), 0700); }
}

inline std::string spell(Tape& t, const InFile& f) {
	std::string rel = f.dir + f.name;
	switch (t.below(6)) {
	case 0: return rel;
	case 1: return "./" + rel;
	case 2: return f.dir.empty() ? rel : f.dir.substr(0, f.dir.size() - 1) + "//" + f.name;
	case 3: return f.dir.empty() ? "./" + rel : f.dir + "./" + f.name;
	case 4: return root() + "/" + rel;
	default: return rel;
	}
}

// Payload bytes that look like the container's own structure (uniformly random bytes practically never do): decided from the payload itself, so no
// tape byte is spent.  One payload in eight (of those with at least 16 bytes) gets, at its start and/or end, a block tag with a length, a volume
// header, a RIFF/WAVE preamble, the clump version string, a run of one value, or CR-LF / 0x1A / 0x00 / 0xFF bytes.
inline void plant_format_bytes(std::vector<uint8_t>& c) {
	if (c.size() < 16 || (c[0] & 7) != 0) return;
	static const std::vector<std::string> pats = {
		std::string("VBLK\x08\x00\x00\x80", 8), std::string("VBLK\xff\xff\xff\x7f", 8), std::string("VOL \x20\x00\x00\x80volh\x00\x00\x00\x80vols", 20), std::string("voli\x0e\x00\x00\x80", 8),
		std::string("RIFF\x24\x00\x00\x00WAVEfmt \x10\x00\x00\x00", 20), std::string("data\x04\x00\x00\x00", 8), std::string("fmt \x10\x00\x00\x00", 8), std::string("OP2 Clump File Version 1.0\x1a\x00\x00\x00\x00\x00", 32),
		std::string("\r\n\r\n\x1a", 5), std::string(12, '\0'), std::string(12, '\xff'), std::string("PBMP\x00\x00\x00\x00head", 12), std::string("BM\x36\x04\x00\x00", 6), std::string("CPAL\x01\x00\x00\x00PPAL", 12)};
	const std::string& a = pats[c[1] % pats.size()]; const std::string& b = pats[c[2] % pats.size()];
	unsigned where = c[3] & 3;   // 0 start, 1 end, 2 both, 3 a long run of one value in the middle
	if (where == 3) { size_t n = std::min<size_t>(c.size() - 2, 3 + size_t(c[4]) * 17 % 5000); uint8_t v = (c[5] & 1) ? 0x20 : (c[5] & 2) ? 0x00 : c[5];
		if (c[6] & 1) { n = std::min<size_t>(c.size() - 1, 4096 + size_t(c[4]) * 64); std::fill(c.end() - long(n), c.end(), v); }   // ... or a block of one value (zeros among them) that runs to the END of the payload
		else std::fill(c.begin() + 1, c.begin() + 1 + long(n), v); return; }
	if (where != 1) std::copy(a.begin(), a.begin() + long(std::min(a.size(), c.size())), c.begin());
	if (where != 0 && c.size() >= b.size()) std::copy(b.begin(), b.end(), c.end() - long(b.size()));
}

// Generates a set of files with names distinct ignoring case (unless allowDup), writes them below the scratch root.
inline std::vector<InFile> gen_files(Tape& t, size_t maxFiles) {
	root();
	std::vector<InFile> fs;
	size_t n = t.below(maxFiles + 1);
	static const char* dirs[] = {"", "", "%d0/", "%d1/%sub/"};
	for (size_t i = 0; i < n; ++i) {
		InFile f;
		f.name = gen_name(t);
		// one later name in four extends an earlier one (possibly in another letter case): prefix-related names sit next to each other in the
		// sorted index and are where a lookup or comparison that stops at the shorter length goes wrong
		if (i && t.below(4) == 0) { const std::string& base = fs[t.below(fs.size())].name; if (base.size() < 40) f.name = case_variant(base, t.u8()) + t.pick<std::string>({".txt", ".old", "x", "_", "0", ".", " ", "\xCC\x81", "\xFF", "\x80z", "\xC3\xA9.txt"}); }
		// one later name in ten is the 'twin' of an earlier one: the same text with '{' for '[', '}' for ']' or '~' for '^' (bytes that a sloppy
		// case fold maps onto each other); the two are different members and every lookup must keep them apart
		if (i && t.below(10) == 0) {
			InFile& g0 = fs[t.below(fs.size())]; size_t at = g0.name.find_first_of("{}~[]^");
			if (at == std::string::npos && g0.name.size() < 30) { g0.name += '['; at = g0.name.size() - 1; bool c2; do { c2 = false; for (auto& g : fs) if (&g != &g0 && ieq(g.name, g0.name)) { c2 = true; g0.name.insert(0, "t"); ++at; } } while (c2); }
			if (at != std::string::npos) { f.name = g0.name; char& ch = f.name[at]; ch = ch == '{' ? '[' : ch == '[' ? '{' : ch == '}' ? ']' : ch == ']' ? '}' : ch == '~' ? '^' : '~'; }
		}
		bool clash;
		do { clash = false; for (auto& g : fs) if (ieq(g.name, f.name)) { clash = true; f.name += char('0' + i % 10); } } while (clash);
		f.dir = dirs[t.below(4)];
		f.content = t.expand(gen_size(t)); plant_format_bytes(f.content);
		fs.push_back(f);
	}
	return fs;
}

inline void materialise(std::vector<InFile>& fs, Tape& t) {
	for (auto& f : fs) { mkdirs("%in/" + f.dir); f.dir = "%in/" + f.dir; write_file(f.dir + f.name, f.content); f.spelled = spell(t, f); }
}

// The listing an archive under test was found to have (set only when names hold bytes >= 0x80, whose rank relative to ASCII is the
// implementation's choice and has been judged by refvol::order_consistent): expected_order() then follows it instead of the unsigned-byte reference order.
inline std::vector<std::string>& adopted_listing() { static std::vector<std::string> l; return l; }
inline std::vector<size_t> expected_order(const std::vector<InFile>& fs) {
	std::vector<size_t> idx(fs.size());
	if (adopted_listing().size() == fs.size() && !fs.empty()) {
		std::vector<char> used(fs.size(), 0); bool ok = true;
		for (size_t k = 0; k < fs.size() && ok; ++k) { ok = false; for (size_t i = 0; i < fs.size(); ++i) if (!used[i] && fs[i].name == adopted_listing()[k]) { idx[k] = i; used[i] = 1; ok = true; break; } }
		if (ok) return idx;
	}
	for (size_t i = 0; i < idx.size(); ++i) idx[i] = i;
	std::sort(idx.begin(), idx.end(), [&](size_t a, size_t b) { return refvol::icmp(fs[a].name, fs[b].name) < 0; });
	return idx;
}

// ---- a session of calls on ONE long-lived archive object (DESIGN.md 7.8) ----
// Every step is judged on its own, whatever came before it on the same object: what a member stream delivers and what an extraction writes
// must not depend on the calls made earlier - in particular not on calls that were refused (extraction onto a directory, an index beyond the
// count, an unknown name), on streams that are still open, or on which member was touched last.
template <class A> struct Session {
	A& v;
	const std::vector<std::string>& names;                    // member i's name
	const std::vector<std::vector<uint8_t>>& streams;         // what OpenStream(i) must deliver
	std::function<void(size_t, const std::string&)> checkExtracted;   // judges the file an extraction of member i wrote
	std::vector<char> extractable;                            // empty = all; otherwise members whose extraction may lawfully be refused are 0
	using StreamPtr = decltype(std::declval<A&>().OpenStream(size_t(0)));
	struct Held { StreamPtr s; size_t i, off; };
	std::vector<Held> held;
	std::string trail;
	enum { ExtractGood, ExtractOntoDirectory, ExtractBeyondCount, StreamWhole, StreamHold, StreamContinue, ExtractByName, LookupAbsent, NameOf, ExtractIntoMissingDir, StreamOverRead, NOPS };
	static const char* opname(unsigned op) { static const char* n[] = {"X", "Xdir", "Xoob", "S", "Shold", "Scont", "Xname", "L?", "N", "Xnewdir", "Sover"}; return n[op % NOPS]; }
	bool canExtract(size_t i) const { return extractable.empty() || extractable[i]; }
	void readRest(Held& h) {
		const auto& want = streams[h.i]; size_t rem = want.size() - h.off; std::vector<uint8_t> got(rem);
		if (rem) h.s->Read(got.data(), rem);
		V_CHECK(std::equal(got.begin(), got.end(), want.begin() + h.off), "session [" << trail << "]: a member stream of " << jstr(names[h.i]) << " that stayed open during other calls continued with other bytes (from offset " << h.off << ")");
		V_CHECK(h.s->Position() == want.size(), "session [" << trail << "]: held stream position " << h.s->Position() << " after reading to its end, length " << want.size());
	}
	void step(unsigned op, size_t i, uint64_t aux) {
		op %= NOPS; const size_t n = names.size(); if (!n) return; i %= n;
		trail += std::string(trail.empty() ? "" : " ") + opname(op) + std::to_string(i);
		mkdirs("%x/sess/"); mkdirs("%x/sessdir/");
		std::string good = "%x/sess/f" + std::to_string(aux % 3);
		switch (op) {
		case ExtractGood: case ExtractByName: {
			auto call = [&] { if (op == ExtractGood) v.ExtractFile(i, good); else static_cast<OP2Utility::Archive::ArchiveFile&>(v).ExtractFile(case_variant(names[i], aux), good); };
			bool dupName = false; for (size_t k = 0; k < n; ++k) if (k != i && ieq(names[k], names[i])) dupName = true;
			if (op == ExtractByName && dupName) { guarded(call); break; }   // the name is not unique: which member answers is not this step's business
			if (!canExtract(i)) { guarded(call); break; }
			std::string what; Out o = guarded(call, &what);
			V_CHECK(o == Out::Ok, "session [" << trail << "]: extraction of member " << i << " " << jstr(names[i]) << " refused after the earlier calls on this object: " << what);
			checkExtracted(i, good); remove(good.c_str()); break; }
		case ExtractOntoDirectory: guarded([&] { v.ExtractFile(i, "%x/sessdir"); }); break;
		case ExtractBeyondCount: guarded([&] { v.ExtractFile(n + aux % 3, good); }); remove(good.c_str()); break;
		case ExtractIntoMissingDir: { std::string p2 = "%x/sess/nd" + std::to_string(aux % 2) + "/f"; Out o = guarded([&] { v.ExtractFile(i, p2); }); if (o == Out::Ok && canExtract(i)) checkExtracted(i, p2); remove(p2.c_str()); rmdir(p2.substr(0, p2.size() - 2).c_str()); break; }
		case StreamWhole: case StreamOverRead: {
			auto s = v.OpenStream(i); const auto& want = streams[i];
			V_CHECK(s->Length() == want.size(), "session [" << trail << "]: stream of member " << i << " " << jstr(names[i]) << " has length " << s->Length() << ", expected " << want.size());
			if (op == StreamOverRead) { std::vector<uint8_t> big(want.size() + 1 + aux % 7); guarded([&] { s->Read(big.data(), big.size()); }); s->Seek(0); }   // what the over-long read itself must do is C12's business; here: the stream still delivers the member afterwards
			std::vector<uint8_t> got(want.size()); if (!got.empty()) s->Read(got.data(), got.size());
			V_CHECK(got == want, "session [" << trail << "]: stream of member " << i << " " << jstr(names[i]) << " delivered other bytes after the earlier calls on this object");
			break; }
		case StreamHold: {
			Held h{v.OpenStream(i), i, 0}; const auto& want = streams[i];
			V_CHECK(h.s->Length() == want.size(), "session [" << trail << "]: stream length " << h.s->Length() << " != " << want.size());
			size_t k = std::min<size_t>(want.size(), 1 + aux % 5); std::vector<uint8_t> got(k); if (k) h.s->Read(got.data(), k);
			V_CHECK(std::equal(got.begin(), got.end(), want.begin()), "session [" << trail << "]: first bytes of member " << i << " differ"); h.off = k;
			if (held.size() < 6) held.push_back(std::move(h)); break; }
		case StreamContinue: if (!held.empty()) { size_t k = aux % held.size(); readRest(held[k]); held.erase(held.begin() + k); } break;
		case LookupAbsent: { std::string q = names[i] + "~q"; bool present = false; for (auto& m : names) if (ieq(m, q)) present = true; if (!present) { guarded([&] { (void)v.GetIndex(q); }); guarded([&] { (void)v.Contains(q); }); guarded([&] { (void)static_cast<OP2Utility::Archive::ArchiveFile&>(v).OpenStream(q); }); } break; }
		case NameOf: V_CHECK(v.GetName(i) == names[i], "session [" << trail << "]: GetName(" << i << ") = " << jstr(v.GetName(i)) << ", expected " << jstr(names[i])); break;
		}
	}
	void finish() { for (auto& h : held) readRest(h); held.clear(); }
	// tape-driven: the next member is, half of the time, the successor of the previous one (in-order access is what caches are written for)
	void run(Tape& t, Stats& st, unsigned steps) {
		const size_t n = names.size(); if (!n || !steps) return;
		size_t prev = t.below(n); bool refusedSeen = false, afterRefusal = false;
		for (unsigned k = 0; k < steps; ++k) {
			size_t i = t.flag() ? (prev + 1) % n : t.below(n); unsigned op = unsigned(t.below(NOPS));
			step(op, i, t.u8());
			if (op == ExtractOntoDirectory || op == ExtractBeyondCount || op == LookupAbsent || op == StreamOverRead) refusedSeen = true; else if (refusedSeen) afterRefusal = true;
			prev = i;
		}
		finish();
		st.cls("session_steps", steps); if (afterRefusal) st.cls("session_with_calls_after_a_refused_call");
	}
};

inline std::string render(const std::vector<InFile>& fs, const std::string& out) {
	std::string s = "{\"files\":[";
	for (size_t i = 0; i < fs.size() && i < 6; ++i) s += std::string(i ? "," : "") + "{\"path\":" + jstr(fs[i].spelled) + ",\"size\":" + std::to_string(fs[i].content.size()) + "}";
	if (fs.size() > 6) s += ",\"...\"";
	return s + "],\"n\":" + std::to_string(fs.size()) + ",\"output\":" + jstr(out) + "}";
}
} // namespace volgen
