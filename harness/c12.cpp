// C12 — readers deliver exactly the addressed bytes and fail atomically at bounds.
// Model = (window bytes, cursor).  Histories decoded from 10-byte op records.
#include "common/verif.h"
#include <unistd.h>
#include "Stream/MemoryReader.h"
#include "Stream/FileReader.h"
#include "Stream/SliceReader.h"
#include <memory>
#include <cstring>
#include <type_traits>

using namespace verif;
using namespace OP2Utility;
const char* const PROP_ID = "C12";

namespace {

enum Kind { KMem, KMemSlice, KFileSlice, KFileSliceSlice, KMemSliceSlice, KCount };
const char* kind_name[] = { "mem", "memslice", "fileslice", "fileslice2", "memslice2" };

enum Op { ORead, OReadPartial, OPeek, OSeek, OSeekFwd, OSeekBack, OSeekBegin, OSeekEnd,
	OTypedFixed, OTypedContainer, OTypedPrefixed, OString, OPeekTyped, OpCount };
const char* op_name[] = { "Read", "ReadPartial", "Peek", "Seek", "SeekForward", "SeekBackward", "SeekBeginning", "SeekEnd",
	"ReadT", "ReadVec", "ReadPrefixed", "ReadCStr", "PeekT" };

struct OpRec { uint8_t op; uint8_t cls; uint64_t raw; };

const int ArgClasses = 16;
uint64_t arg_value(uint8_t cls, uint64_t raw, uint64_t len, uint64_t pos) {
	uint64_t rem = len - pos;
	switch (cls % ArgClasses) {
	case 0: return 0;
	case 1: return 1;
	case 2: return len - 1;           // wraps to 2^64-1 for len 0: still a boundary
	case 3: return len;
	case 4: return len + 1;
	case 5: return rem - 1;
	case 6: return rem;
	case 7: return rem + 1;
	case 8: return uint64_t(1) << 31;
	case 9: return uint64_t(1) << 32;
	case 10: return uint64_t(1) << 63;
	case 11: return ~uint64_t(0);
	case 12: return uint64_t(0) - pos;      // pos + v wraps to exactly 0
	case 13: return uint64_t(0) - pos + (raw % 8); // wraps to a small in-range value
	case 14: return raw % 70;
	default: return raw;
	}
}

struct Ctx {
	std::vector<uint8_t> window;          // model content
	uint64_t cur = 0;                      // model cursor
	Stream::BidirectionalReader* r = nullptr;
	std::string trace;
	bool tracing = false;
	// NT tracking
	bool seen_fail = false, nt = false, seen_short = false;
};

void sync_check(Ctx& c, const char* where) {
	uint64_t p = c.r->Position();
	uint64_t l = c.r->Length();
	V_CHECK(l == c.window.size(), where << ": Length()=" << l << " model=" << c.window.size() << " trace=" << c.trace);
	V_CHECK(p == c.cur, where << ": Position()=" << p << " model=" << c.cur << " trace=" << c.trace);
	V_CHECK(p <= l, where << ": Position()>Length() trace=" << c.trace);
}

// allocate an exact-size heap block so ASan sees a one-byte overrun
struct Buf {
	uint8_t* p; size_t n;
	explicit Buf(size_t n_) : p(static_cast<uint8_t*>(malloc(n_ ? n_ : 1))), n(n_) { memset(p, 0xCD, n_ ? n_ : 1); }
	~Buf() { free(p); }
	Buf(const Buf&) = delete;
};

#pragma pack(push, 1)
struct Rec14 { uint32_t a; uint32_t b; int32_t c; uint16_t d; };
#pragma pack(pop)

template <class T> void typed_fixed(Ctx& c, bool peek) {
	uint64_t rem = c.window.size() - c.cur;
	T v; memset(&v, 0xCD, sizeof v);
	Out o = guarded([&] { if (peek) c.r->Peek(v); else c.r->Read(v); });
	if (sizeof(T) <= rem) {
		V_CHECK(o == Out::Ok, "typed read of " << sizeof(T) << " bytes with " << rem << " remaining failed; trace=" << c.trace);
		V_CHECK(memcmp(&v, c.window.data() + c.cur, sizeof(T)) == 0, "typed read returned wrong bytes; trace=" << c.trace);
		if (!peek) c.cur += sizeof(T);
		if (c.seen_fail) c.nt = true;
	} else {
		V_CHECK(o == Out::Err, "typed read of " << sizeof(T) << " bytes with only " << rem << " remaining succeeded; trace=" << c.trace);
		c.seen_fail = true;
	}
}

template <class E> void typed_container(Ctx& c, uint64_t m) {
	uint64_t rem = c.window.size() - c.cur;
	if (m > 4096) m = 4096 + (m & 63);
	std::vector<E> v(m);
	Out o = guarded([&] { c.r->Read(v); });
	uint64_t need = m * sizeof(E);
	if (need <= rem) {
		V_CHECK(o == Out::Ok, "container read of " << need << " bytes, rem " << rem << " failed; trace=" << c.trace);
		V_CHECK(need == 0 || memcmp(v.data(), c.window.data() + c.cur, need) == 0, "container read wrong bytes; trace=" << c.trace);
		c.cur += need;
		if (c.seen_fail && need) c.nt = true;
	} else {
		V_CHECK(o == Out::Err, "container read of " << need << " bytes with rem " << rem << " succeeded; trace=" << c.trace);
		c.seen_fail = true;
	}
}

// std::string overloads: Read(string) fills the existing length, Read<SizeType>(string) is the size-prefixed form (map and tile-group names)
// (Ch = char, char16_t, char32_t: a string of n characters occupies n * sizeof(Ch) bytes, like any container)
template <class Ch = char> void typed_string(Ctx& c, uint64_t m) {
	uint64_t rem = c.window.size() - c.cur;
	if (m > 4096) m = 4096 + (m & 63);
	std::basic_string<Ch> v(size_t(m), Ch(0x55));
	Out o = guarded([&] { c.r->Read(v); });
	unsigned __int128 need = (unsigned __int128)m * sizeof(Ch);
	if (need <= rem) {
		V_CHECK(o == Out::Ok, "string read of " << m << " characters of " << sizeof(Ch) << " bytes, rem " << rem << " failed; trace=" << c.trace);
		V_CHECK(v.size() == m && (m == 0 || memcmp(v.data(), c.window.data() + c.cur, size_t(need)) == 0), "string read (" << sizeof(Ch) << "-byte characters) wrong bytes; trace=" << c.trace);
		c.cur += uint64_t(need);
		if (c.seen_fail && m) c.nt = true;
	} else {
		V_CHECK(o == Out::Err, "string read of " << m << " characters of " << sizeof(Ch) << " bytes with rem " << rem << " succeeded; trace=" << c.trace);
		c.seen_fail = true;
	}
}
template <class S, class Ch = char> void typed_prefixed_string(Ctx& c) {
	if (sizeof(Ch) > 1) {   // wide strings: the generic size-prefixed container law with Ch-sized elements
		uint64_t before = c.cur, rem = c.window.size() - c.cur; std::basic_string<Ch> v(3, Ch(0x55)); std::string what;
		Out o = guarded([&] { c.r->template Read<S>(v); }, &what);
		if (rem < sizeof(S)) { V_CHECK(o == Out::Err, "prefixed wide-string read without room for the prefix succeeded; trace=" << c.trace); c.seen_fail = true; return; }
		S sz; memcpy(&sz, c.window.data() + c.cur, sizeof(S)); bool negative = std::is_signed<S>::value && sz < 0;
		unsigned __int128 need = negative ? 0 : (unsigned __int128)(uint64_t)sz * sizeof(Ch); uint64_t rem2 = rem - sizeof(S);
		if (!negative && need <= rem2) {
			V_CHECK(o == Out::Ok, "prefixed wide-string read size=" << (long long)sz << " x " << sizeof(Ch) << " rem=" << rem2 << " failed: " << what << "; trace=" << c.trace);
			V_CHECK(v.size() == uint64_t(sz) && (need == 0 || memcmp(v.data(), c.window.data() + c.cur + sizeof(S), size_t(need)) == 0), "prefixed wide-string read returned " << v.size() << " characters / wrong text, encoded " << (long long)sz << "; trace=" << c.trace);
			c.cur += sizeof(S) + uint64_t(need); if (c.seen_fail) c.nt = true;
		} else {
			V_CHECK(o == Out::Err, "prefixed wide-string read with " << (negative ? "negative" : "unsatisfiable") << " size " << (long long)sz << " succeeded; trace=" << c.trace);
			uint64_t p = c.r->Position(); V_CHECK(p >= before && p <= before + sizeof(S) && p <= c.window.size(), "after failed prefixed wide-string read Position()=" << p << "; trace=" << c.trace);
			c.cur = p; c.seen_fail = true;
		}
		return;
	}
	uint64_t before = c.cur, rem = c.window.size() - c.cur;
	std::string v = "stale"; std::string what;
	Out o = guarded([&] { c.r->template Read<S>(v); }, &what);
	if (rem < sizeof(S)) { V_CHECK(o == Out::Err, "prefixed string read without room for the prefix succeeded; trace=" << c.trace); c.seen_fail = true; return; }
	S sz; memcpy(&sz, c.window.data() + c.cur, sizeof(S));
	bool negative = std::is_signed<S>::value && sz < 0;
	uint64_t need = negative ? 0 : uint64_t(sz), rem2 = rem - sizeof(S);
	if (!negative && need <= rem2) {
		V_CHECK(o == Out::Ok, "prefixed string read size=" << (long long)sz << " rem=" << rem2 << " failed: " << what << "; trace=" << c.trace);
		V_CHECK(v.size() == need && (need == 0 || memcmp(v.data(), c.window.data() + c.cur + sizeof(S), size_t(need)) == 0), "prefixed string read returned " << v.size() << " bytes / wrong text, encoded " << need << "; trace=" << c.trace);
		c.cur += sizeof(S) + need;
		if (c.seen_fail) c.nt = true;
	} else {
		V_CHECK(o == Out::Err, "prefixed string read with " << (negative ? "negative" : "unsatisfiable") << " size " << (long long)sz << " (rem " << rem2 << ") succeeded; trace=" << c.trace);
		uint64_t p = c.r->Position();
		V_CHECK(p >= before && p <= before + sizeof(S) && p <= c.window.size(), "after failed prefixed string read Position()=" << p << "; trace=" << c.trace);
		c.cur = p; c.seen_fail = true;
	}
}

// size-prefixed container: composite helper.  On failure after the prefix was consumed the cursor may rest
// anywhere in [before, before+w]; it is re-synchronised from Position().
template <class S, class E> void typed_prefixed(Ctx& c) {
	uint64_t before = c.cur;
	uint64_t rem = c.window.size() - c.cur;
	std::vector<E> v(3, E(0x55)); // pre-existing content must be replaced
	std::string what;
	Out o = guarded([&] { c.r->template Read<S>(v); }, &what);
	if (rem < sizeof(S)) {
		V_CHECK(o == Out::Err, "prefixed read without room for the prefix succeeded; trace=" << c.trace);
		c.seen_fail = true;
		return; // simple failure: cursor must be unchanged (checked by caller)
	}
	S s; memcpy(&s, c.window.data() + c.cur, sizeof(S));
	bool negative = std::is_signed<S>::value && s < 0;
	// 128-bit arithmetic: s up to 2^63, sizeof(E) up to 4
	unsigned __int128 need = negative ? 0 : (unsigned __int128)(uint64_t)s * sizeof(E);
	uint64_t rem2 = rem - sizeof(S);
	if (!negative && need <= rem2) {
		V_CHECK(o == Out::Ok, "prefixed read size=" << (long long)s << " elem=" << sizeof(E) << " rem=" << rem2 << " failed: " << what << "; trace=" << c.trace);
		V_CHECK(v.size() == (uint64_t)s, "prefixed read produced " << v.size() << " elements, encoded " << (long long)s << "; trace=" << c.trace);
		V_CHECK(need == 0 || memcmp(v.data(), c.window.data() + c.cur + sizeof(S), (size_t)need) == 0, "prefixed read wrong payload; trace=" << c.trace);
		c.cur += sizeof(S) + (uint64_t)need;
		if (c.seen_fail) c.nt = true;
	} else {
		V_CHECK(o == Out::Err, "prefixed read with " << (negative ? "negative" : "unsatisfiable") << " size " << (long long)s << " (elem " << sizeof(E) << ", rem " << rem2 << ") succeeded; trace=" << c.trace);
		uint64_t p = c.r->Position();
		V_CHECK(p >= before && p <= before + sizeof(S) && p <= c.window.size(), "after failed prefixed read Position()=" << p << " outside [" << before << "," << before + sizeof(S) << "]; trace=" << c.trace);
		c.cur = p;
		c.seen_fail = true;
	}
}

void do_string(Ctx& c, uint64_t maxc, bool dflt) {
	uint64_t before = c.cur, len = c.window.size();
	std::string got;
	Out o = guarded([&] { got = dflt ? c.r->ReadNullTerminatedString() : c.r->ReadNullTerminatedString(maxc); });
	// model
	std::string exp; uint64_t p = before; bool ok = true;
	for (uint64_t i = 0; dflt || i < maxc; ++i) {
		if (p >= len) { ok = false; break; }
		uint8_t ch = c.window[p++];
		if (ch == 0) break;
		exp.push_back(char(ch));
	}
	if (ok) {
		V_CHECK(o == Out::Ok, "string read failed though terminator/limit is in range; trace=" << c.trace);
		V_CHECK(got == exp, "string read returned wrong text; trace=" << c.trace);
		c.cur = p;
		if (c.seen_fail && p != before) c.nt = true;
	} else {
		V_CHECK(o == Out::Err, "string read ran off the end but succeeded; trace=" << c.trace);
		uint64_t q = c.r->Position();
		V_CHECK(q >= before && q <= len, "after failed string read Position()=" << q << "; trace=" << c.trace);
		c.cur = q;
		c.seen_fail = true;
	}
}

void step(Ctx& c, const OpRec& rec) {
	uint64_t len = c.window.size();
	uint64_t rem = len - c.cur;
	uint8_t op = rec.op % OpCount;
	uint64_t a = arg_value(rec.cls, rec.raw, len, c.cur);
	if (c.tracing) { c.trace += std::string(op_name[op]) + "(" + std::to_string(a) + ");"; }
	bool after_short = c.seen_short;
	switch (op) {
	case ORead: case OPeek: {
		size_t k = (size_t)a;
		Buf b(k <= rem ? k : rem);
		Out o = guarded([&] { if (op == ORead) c.r->Read(b.p, k); else c.r->Peek(b.p, k); });
		if (k <= rem) {
			V_CHECK(o == Out::Ok, op_name[op] << "(" << k << ") with " << rem << " remaining failed; trace=" << c.trace);
			V_CHECK(k == 0 || memcmp(b.p, c.window.data() + c.cur, k) == 0, op_name[op] << " returned wrong bytes; trace=" << c.trace);
			if (op == ORead) c.cur += k;
			if (c.seen_fail && k) c.nt = true;
		} else {
			V_CHECK(o == Out::Err, op_name[op] << "(" << k << ") beyond the " << rem << " remaining bytes succeeded; trace=" << c.trace);
			c.seen_fail = true;
		}
		break; }
	case OReadPartial: {
		size_t k = (size_t)a;
		size_t expn = k <= rem ? k : (size_t)rem;
		Buf b(expn);
		size_t got = c.r->ReadPartial(b.p, k);
		V_CHECK(got == expn, "ReadPartial(" << k << ") returned " << got << ", expected min(requested, remaining)=" << expn << "; trace=" << c.trace);
		V_CHECK(expn == 0 || memcmp(b.p, c.window.data() + c.cur, expn) == 0, "ReadPartial returned wrong bytes; trace=" << c.trace);
		c.cur += expn;
		if (expn < k) c.seen_short = true;
		if (c.seen_fail && expn) c.nt = true;
		break; }
	case OSeek: {
		Out o = guarded([&] { c.r->Seek(a); });
		if (a <= len) { V_CHECK(o == Out::Ok, "Seek(" << a << ") in range failed; trace=" << c.trace); c.cur = a; }
		else { V_CHECK(o == Out::Err, "Seek(" << a << ") beyond length " << len << " succeeded; trace=" << c.trace); c.seen_fail = true; }
		break; }
	case OSeekFwd: {
		Out o = guarded([&] { c.r->SeekForward(a); });
		if (a <= rem) { V_CHECK(o == Out::Ok, "SeekForward(" << a << ") in range failed; trace=" << c.trace); c.cur += a; }
		else { V_CHECK(o == Out::Err, "SeekForward(" << a << ") with " << rem << " remaining succeeded; trace=" << c.trace); c.seen_fail = true; }
		break; }
	case OSeekBack: {
		Out o = guarded([&] { c.r->SeekBackward(a); });
		if (a <= c.cur) { V_CHECK(o == Out::Ok, "SeekBackward(" << a << ") in range failed; trace=" << c.trace); c.cur -= a; }
		else { V_CHECK(o == Out::Err, "SeekBackward(" << a << ") from " << c.cur << " succeeded; trace=" << c.trace); c.seen_fail = true; }
		break; }
	case OSeekBegin: c.r->SeekBeginning(); c.cur = 0; break;
	case OSeekEnd: c.r->SeekEnd(); c.cur = len; break;
	case OTypedFixed: case OPeekTyped: {
		bool pk = op == OPeekTyped;
		switch (rec.raw % 5) {
		case 0: typed_fixed<uint8_t>(c, pk); break;
		case 1: typed_fixed<uint16_t>(c, pk); break;
		case 2: typed_fixed<uint32_t>(c, pk); break;
		case 3: typed_fixed<uint64_t>(c, pk); break;
		default: typed_fixed<Rec14>(c, pk); break;
		}
		break; }
	case OTypedContainer: {
		switch (rec.raw % 4) {
		case 0: typed_container<uint8_t>(c, a); break;
		case 1: typed_container<uint16_t>(c, a); break;
		case 2: typed_container<uint32_t>(c, a); break;
		default: switch ((rec.raw >> 4) % 4) { case 2: typed_string<char16_t>(c, a); break; case 3: typed_string<char32_t>(c, a); break; default: typed_string<char>(c, a); break; } break;
		}
		break; }
	case OTypedPrefixed: {
		unsigned e = (rec.raw >> 8) % 4;
		switch (rec.raw % 7) {
#define PFX(S) (e == 0 ? typed_prefixed<S, uint8_t>(c) : e == 1 ? typed_prefixed<S, uint16_t>(c) : e == 2 ? typed_prefixed<S, uint32_t>(c) : ((rec.raw >> 12) % 4 == 2 ? typed_prefixed_string<S, char16_t>(c) : (rec.raw >> 12) % 4 == 3 ? typed_prefixed_string<S, char32_t>(c) : typed_prefixed_string<S, char>(c)))
		case 0: PFX(uint8_t); break;
		case 1: PFX(int8_t); break;
		case 2: PFX(uint16_t); break;
		case 3: PFX(int16_t); break;
		case 4: PFX(uint32_t); break;
		case 5: PFX(int32_t); break;
		default: PFX(int64_t); break;
#undef PFX
		}
		break; }
	case OString: {
		bool dflt = (rec.cls % ArgClasses) == 11;
		do_string(c, a, dflt);
		break; }
	}
	if (after_short) c.nt = true;
	sync_check(c, op_name[op]);
}

std::string g_file_path;
std::vector<uint8_t> g_file_content;
bool g_file_valid = false;
const std::string& file_for(const std::vector<uint8_t>& full) {
	if (g_file_path.empty()) g_file_path = scratch_path("c12_src.bin");
	if (!g_file_valid || g_file_content != full) { write_file(g_file_path, full); g_file_content = full; g_file_valid = true; }
	return g_file_path;
}

// run a history on one reader kind over window [a, a+n) of `full` (for KMem the window is the whole buffer)
void exec_history(Kind kind, const std::vector<uint8_t>& fullv, uint64_t a, uint64_t n, uint64_t a2, uint64_t n2,
	const std::vector<OpRec>& ops, Stats& st, bool tracing) {
	// exact-size heap copy of the source so that ASan guards both ends
	Buf full(fullv.size());
	if (!fullv.empty()) memcpy(full.p, fullv.data(), fullv.size());
	Ctx c; c.tracing = tracing;
	std::unique_ptr<Stream::BidirectionalReader> rd;
	switch (kind) {
	case KMem:
		rd = std::make_unique<Stream::MemoryReader>(full.p, fullv.size());
		c.window = fullv; break;
	case KMemSlice: {
		Stream::MemoryReader m(full.p, fullv.size());
		rd = std::make_unique<Stream::MemoryReader>(m.Slice(a, n));
		c.window.assign(fullv.begin() + a, fullv.begin() + a + n); break; }
	case KMemSliceSlice: {
		Stream::MemoryReader m(full.p, fullv.size());
		rd = std::make_unique<Stream::MemoryReader>(m.Slice(a, n).Slice(a2, n2));
		c.window.assign(fullv.begin() + a + a2, fullv.begin() + a + a2 + n2); break; }
	case KFileSlice: {
		Stream::FileReader f(file_for(fullv));
		rd = std::make_unique<Stream::FileSliceReader>(f.Slice(a, n));
		c.window.assign(fullv.begin() + a, fullv.begin() + a + n); break; }
	case KFileSliceSlice: {
		Stream::FileReader f(file_for(fullv));
		rd = std::make_unique<Stream::FileSliceReader>(f.Slice(a, n).Slice(a2, n2));
		c.window.assign(fullv.begin() + a + a2, fullv.begin() + a + a2 + n2); break; }
	default: break;
	}
	c.r = rd.get();
	if (tracing) c.trace = std::string(kind_name[kind]) + "[len " + std::to_string(c.window.size()) + "]:";
	sync_check(c, "initial");
	// one history in four continues, from its middle, on a COPY of the reader (a copied memory reader / file slice is a reader of the same kind
	// over the same bytes): where the copy starts is read from the copy itself, everything after that follows the model again
	size_t forkAt = (ops.size() >= 4 && ((ops[0].raw >> 13) & 3) == 0) ? ops.size() / 2 : ~size_t(0);
	std::unique_ptr<Stream::BidirectionalReader> cp;
	for (size_t k = 0; k < ops.size(); ++k) {
		if (k == forkAt) {
			if (kind == KMem || kind == KMemSlice || kind == KMemSliceSlice) cp = std::make_unique<Stream::MemoryReader>(*static_cast<Stream::MemoryReader*>(rd.get()));
			else cp = std::make_unique<Stream::FileSliceReader>(*static_cast<Stream::FileSliceReader*>(rd.get()));
			if ((ops[0].raw >> 15) & 1) rd.reset();   // the original may be gone by the time the copy is used
			c.r = cp.get(); c.cur = c.r->Position();
			V_CHECK(c.cur <= c.window.size() && c.r->Length() == c.window.size(), "copy of a reader: Position() " << c.cur << " Length() " << c.r->Length() << " for a window of " << c.window.size() << "; trace=" << c.trace);
			if (tracing) c.trace += "copy@" + std::to_string(c.cur) + ";";
			st.cls("history_continues_on_a_copy");
		}
		step(c, ops[k]);
	}
	// closing probe: everything left must still be readable and correct ("later behaviour unchanged")
	{
		uint64_t rem = c.window.size() - c.cur;
		Buf b(rem);
		size_t got = c.r->ReadPartial(b.p, rem + 7);
		V_CHECK(got == rem, "closing ReadPartial returned " << got << " expected " << rem << "; trace=" << c.trace);
		V_CHECK(rem == 0 || memcmp(b.p, c.window.data() + c.cur, rem) == 0, "closing ReadPartial wrong bytes; trace=" << c.trace);
		c.cur += rem;
		sync_check(c, "closing");
	}
	st.cls(std::string("kind:") + kind_name[kind]);
	if (c.seen_fail) st.cls("has_failed_op");
	if (c.seen_short) st.cls("has_short_partial");
	if (c.nt) {
		uint64_t h = fnv1a(fullv.data(), fullv.size(), kind * 1315423911ULL + a * 31 + n);
		for (auto& op : ops) { h = hmix(h, op.op % OpCount); h = hmix(h, arg_value(op.cls, op.raw, c.window.size(), 0)); h = hmix(h, (op.op % OpCount) >= OTypedFixed ? op.raw % 21 : 0); }
		st.nt(h);
	}
}

struct Decoded {
	Kind kind; std::vector<uint8_t> full; uint64_t a, n, a2, n2; std::vector<OpRec> ops;
};

Decoded decode(Tape& t) {
	Decoded d;
	d.kind = Kind(t.below(KCount));
	size_t maxlen = g_thorough ? 5000 : 64;
	size_t flen = t.pick<uint32_t>({0, 1, 2, 5, 8, 16, 33, 64, 64, 64}) ;
	if (t.flag()) flen = t.below(maxlen + 1);
	if (!g_thorough && t.below(8) == 0) flen = 256 + t.below(450);   // room behind 8-bit prefixes re-read as unsigned
	if (t.below(24) == 0) flen = 8100 + t.below(12000);   // windows straddling the 4096 / 8192 boundaries of a file buffer
	d.full = t.bytes(flen > 300 ? 300 : flen);
	if (flen > 300) { auto more = t.expand(flen - 300); d.full.insert(d.full.end(), more.begin(), more.end()); }
	// plant size prefixes / terminators so that typed helpers meet interesting encoded sizes
	unsigned plants = t.below(4);
	for (unsigned i = 0; i < plants && flen; ++i) {
		size_t at = t.below(flen);
		int64_t val = t.pick<int64_t>({0, 1, 2, 3, 4, 7, -1, -2, -128, 127, 128, 255, 256, 32767, -32768, 65535, 65536, 0x7fffffffLL, 0x80000000LL, 0xffffffffLL, (int64_t)0x7fffffffffffffffLL, (int64_t)0x8000000000000000ULL});
		if (t.flag()) val = (int64_t)((flen - at) / (1 + t.below(4))) - (int64_t)t.below(10) + 4;
		for (unsigned b = 0; b < 8 && at + b < flen; ++b) d.full[at + b] = uint8_t(uint64_t(val) >> (8 * b));
	}
	// window
	d.a = t.below(flen + 1); d.n = t.below(flen - d.a + 1);
	if (t.below(4) == 0) { d.a = 0; d.n = flen; }
	if (t.below(6) == 0) { d.n = flen - d.a; } // end-anchored
	d.a2 = t.below(d.n + 1); d.n2 = t.below(d.n - d.a2 + 1);
	if (t.below(4) == 0) { d.n2 = d.n - d.a2; }
	unsigned nops = 1 + t.below(40);
	for (unsigned i = 0; i < nops && !t.empty(); ++i) {
		OpRec r; r.op = t.u8(); r.cls = t.u8(); r.raw = t.u64();
		d.ops.push_back(r);
	}
	return d;
}

std::string render(const Decoded& d) {
	uint64_t len = d.kind == KMem ? d.full.size() : (d.kind == KMemSlice || d.kind == KFileSlice) ? d.n : d.n2;
	std::string s = std::string("{\"kind\":\"") + kind_name[d.kind] + "\",\"src\":\"" + hex(d.full, 24) + "\",\"window\":[" + std::to_string(d.a) + "," + std::to_string(d.n) + "," + std::to_string(d.a2) + "," + std::to_string(d.n2) + "],\"ops\":[";
	for (size_t i = 0; i < d.ops.size() && i < 12; ++i) {
		uint8_t op = d.ops[i].op % OpCount;
		bool uses_arg = op <= OSeekBack || op == OTypedContainer || op == OString;
		std::string arg = uses_arg ? std::to_string(arg_value(d.ops[i].cls, d.ops[i].raw, len, 0)) + (op <= OSeekBack || op == OString ? "" : ",v" + std::to_string(d.ops[i].raw % 4))
			: (op == OSeekBegin || op == OSeekEnd) ? "" : "v" + std::to_string(op == OTypedPrefixed ? (d.ops[i].raw % 7) * 10 + (d.ops[i].raw >> 8) % 4 : d.ops[i].raw % 5);
		s += std::string(i ? "," : "") + "\"" + op_name[op] + "(" + arg + ")\"";
	}
	if (d.ops.size() > 12) s += ",\"...(" + std::to_string(d.ops.size()) + " ops)\"";
	return s + "]}";
}
} // namespace

void run_case(Tape& t, Stats& st) {
	Decoded d = decode(t);
	if (st.want_sample()) st.sample(render(d));
	try {
		exec_history(d.kind, d.full, d.a, d.n, d.a2, d.n2, d.ops, st, false);
	} catch (const Violation&) {
		// re-run with tracing to produce a readable message (deterministic)
		g_file_valid = false;
		exec_history(d.kind, d.full, d.a, d.n, d.a2, d.n2, d.ops, st, true);
		throw;
	}
}

void run_sweep(Stats& st) {
	// exhaustive: every 2-operation history over (op x boundary argument class) on a 5-byte window, every kind.
	const std::vector<uint8_t> full = { 0x10, 0x02, 0x00, 0x33, 0x00, 0x05, 0xff, 0x01, 0x77 };
	struct Win { uint64_t a, n, a2, n2; };
	const Win wins[KCount] = { {0, 9, 0, 0}, {2, 5, 0, 0}, {2, 5, 0, 0}, {1, 7, 1, 5}, {1, 7, 1, 5} };
	std::vector<OpRec> alphabet;
	for (uint8_t op = 0; op < OpCount; ++op) {
		if (op == OSeekBegin || op == OSeekEnd) { alphabet.push_back({op, 0, 0}); continue; }
		if (op == OTypedFixed || op == OPeekTyped) { for (uint64_t r = 0; r < 5; ++r) alphabet.push_back({op, 0, r}); continue; }
		if (op == OTypedPrefixed) { for (uint64_t r = 0; r < 7; ++r) for (uint64_t e = 0; e < 3; ++e) alphabet.push_back({op, 0, r | (e << 8)}); for (uint64_t r = 0; r < 7; ++r) alphabet.push_back({op, 0, r | (uint64_t(3) << 8)}); continue; }
		for (uint8_t cls = 0; cls < 14; ++cls) {
			if (op == OTypedContainer) { for (uint64_t r = 0; r < 4; ++r) alphabet.push_back({op, cls, r}); }
			else alphabet.push_back({op, cls, 3});
		}
	}
	for (int k = 0; k < KCount; ++k) {
		// KMem: window is the whole 9-byte buffer; use a 5-byte buffer instead so the table means the same
		std::vector<uint8_t> src = full;
		Win w = wins[k];
		if (k == KMem) { src.assign(full.begin() + 2, full.begin() + 7); w = {0, 5, 0, 0}; }
		for (size_t i = 0; i < alphabet.size(); ++i)
			for (size_t j = 0; j < alphabet.size(); ++j) {
				if (!sw("twoops", k, i, j)) continue;
				std::vector<OpRec> ops = { alphabet[i], alphabet[j] };
				try { exec_history(Kind(k), src, w.a, w.n, w.a2, w.n2, ops, st, false); }
				catch (const Violation&) { g_file_valid = false; exec_history(Kind(k), src, w.a, w.n, w.a2, w.n2, ops, st, true); throw; }
			}
	}
	// zero-length windows: every single operation
	for (int k = 0; k < KCount; ++k)
		for (size_t i = 0; i < alphabet.size(); ++i) {
			if (!sw("empty", k, i)) continue;
			std::vector<OpRec> ops = { alphabet[i] };
			std::vector<uint8_t> src = (k == KMem) ? std::vector<uint8_t>{} : full;
			try { exec_history(Kind(k), src, 9, 0, 0, 0, ops, st, false); }
			catch (const Violation&) { exec_history(Kind(k), src, 9, 0, 0, 0, ops, st, true); throw; }
		}
	// size prefixes with enough data behind them to satisfy their value re-read as unsigned of the same width: a negative
	// int8/int16 prefix followed by 2^bits + n elements, and the largest positive ones, on every reader kind
	{
		std::vector<uint8_t> big(66000 * 2 + 16);
		for (size_t i = 0; i < big.size(); ++i) big[i] = uint8_t(i * 37 + (i >> 8));
		const int64_t vals[] = {-1, -2, -3, -127, -128, 127, 126, -32768, -32767, -256, -255, 32767, 255, 256};
		for (int k = 0; k < KCount; ++k) for (unsigned pt = 0; pt < 2; ++pt) for (unsigned e = 0; e < 2; ++e) for (size_t vi = 0; vi < sizeof vals / sizeof vals[0]; ++vi) {
			int64_t v = vals[vi];
			if (pt == 0 && (v < -128 || v > 127)) continue;
			if (!sw("prefix_room", k, pt, e, vi)) continue;
			std::vector<uint8_t> src = big;
			uint64_t winAt = k == KMem ? 0 : (k == KMemSlice || k == KFileSlice) ? 3 : 5;   // absolute start of the window under test
			src[winAt] = uint8_t(v); if (pt == 1) src[winAt + 1] = uint8_t(uint64_t(v) >> 8);
			std::vector<OpRec> ops = { {uint8_t(OTypedPrefixed), 0, uint64_t(pt == 0 ? 1 : 3) | (uint64_t(e) << 8)}, {uint8_t(ORead), 1, 3} };
			Win w = k == KMem ? Win{0, src.size(), 0, 0} : (k == KMemSlice || k == KFileSlice) ? Win{3, src.size() - 3, 0, 0} : Win{3, src.size() - 3, 2, src.size() - 5};
			try { exec_history(Kind(k), src, w.a, w.n, w.a2, w.n2, ops, st, false); }
			catch (const Violation&) { g_file_valid = false; exec_history(Kind(k), src, w.a, w.n, w.a2, w.n2, ops, st, true); throw; }
		}
	}
	// file slices far into a sparse file: starting offsets beyond 2^31 and 2^32 (a 32-bit offset anywhere would alias low addresses)
	{
		std::string bp = scratch_path("c12_big.bin");
		const uint64_t offs[] = {(uint64_t(1) << 31) + 5, (uint64_t(1) << 32) + 100, (uint64_t(1) << 32) - 11};   // the last window straddles 2^32
		{ FILE* f = fopen(bp.c_str(), "wb"); if (!f) { perror("big"); _exit(2); }
		  const char low[] = "low-address-bytes-must-never-show-up-here!"; fwrite(low, 1, sizeof low, f);
		  for (uint64_t o : offs) { fseeko(f, off_t(o), SEEK_SET); for (int i = 0; i < 24; ++i) fputc(int(0x80 + i + (o >> 28)), f); }
		  fclose(f); }
		for (unsigned oi = 0; oi < 3; ++oi) {
			if (!sw("big_offset", oi)) continue;
			uint64_t o = offs[oi]; uint8_t want[24]; for (int i = 0; i < 24; ++i) want[i] = uint8_t(0x80 + i + (o >> 28));
			Stream::FileReader f(bp);
			auto sl = f.Slice(o + 2, 16);
			V_CHECK(sl.Length() == 16 && sl.Position() == 0, "file slice at offset " << o + 2 << ": Length " << sl.Length() << " Position " << sl.Position());
			uint8_t buf[32]; sl.Read(buf, 16);
			V_CHECK(memcmp(buf, want + 2, 16) == 0 && sl.Position() == 16, "file slice at offset " << o + 2 << " delivered other bytes: " << hex(buf, 16));
			V_CHECK(guarded([&] { sl.Read(buf, 1); }) == Out::Err && sl.Position() == 16, "read past a far file slice");
			sl.SeekBackward(10); V_CHECK(sl.Position() == 6, "SeekBackward on a far file slice");
			size_t got = sl.ReadPartial(buf, 30); V_CHECK(got == 10 && memcmp(buf, want + 8, 10) == 0, "ReadPartial on a far file slice returned " << got);
			V_CHECK(guarded([&] { sl.Seek(17); }) == Out::Err && sl.Position() == 16, "Seek beyond a far file slice");
			sl.Seek(3); sl.Peek(buf, 4); V_CHECK(memcmp(buf, want + 5, 4) == 0 && sl.Position() == 3, "Peek on a far file slice");
			auto inner = sl.Slice(4, 8); inner.Read(buf, 8); V_CHECK(memcmp(buf, want + 6, 8) == 0 && sl.Position() == 3, "nested slice of a far file slice");
			V_CHECK(guarded([&] { sl.Slice(9, 8); }) == Out::Err, "nested slice leaving a far file slice was created");
			auto cur = sl.Slice(5); cur.SeekEnd(); cur.SeekBackward(5); cur.Read(buf, 5); V_CHECK(memcmp(buf, want + 5, 5) == 0 && sl.Position() == 8, "Slice(n) of a far file slice");
			st.cls("big_offset_slice");
		}
		remove(bp.c_str());
	}
	st.exhaustive = true;
	st.cls("sweep_alphabet_size", alphabet.size());
}

void write_seeds(const std::string&) {}
