#!/usr/bin/env python3
"""Driver for the OP2Utility property checks (DESIGN.md 2, 5a).

  python3 check.py --setup
  python3 check.py C12 --tier quick|thorough
  python3 check.py C12 --replay <file>

exit 0: property held on everything explored (KNOWN-FINDING lines for listed findings)
exit 1: "VIOLATION property=<id> replay=<path>" printed
exit 2: build / infrastructure error, or fewer cases executed than the per-property floor
"""
import sys, os, json, subprocess, time, shutil, hashlib, struct, fcntl, argparse, re, glob

VERIF = os.path.dirname(os.path.abspath(__file__))
sys.path.insert(0, VERIF)
from props import PROPS  # noqa: E402

REPO = os.environ.get('VERIF_REPO', '/repo')
CURCFG = None
NCPU = os.cpu_count() or 4


def build_key():
    if os.path.abspath(REPO) == '/repo':
        return 'default'
    return 'alt-' + hashlib.sha1(os.path.abspath(REPO).encode()).hexdigest()[:10]


BUILD = os.path.join(VERIF, 'build', build_key())


def log(*a):
    print(*a, flush=True)


def build(bins, flavour='san'):
    os.makedirs(BUILD, exist_ok=True)
    lock = open(os.path.join(BUILD, '.lock.' + flavour), 'w')
    fcntl.flock(lock, fcntl.LOCK_EX)
    try:
        cmd = ['make', '-f', os.path.join(VERIF, 'build.mk'), '-j', str(NCPU), 'FLAVOUR=' + flavour,
               'VERIF_REPO=' + REPO, 'BUILD=' + BUILD, 'PROPS=' + ' '.join(bins)]
        t0 = time.time()
        r = subprocess.run(cmd, stdout=subprocess.PIPE, stderr=subprocess.STDOUT, text=True)
        if r.returncode != 0:
            log(r.stdout[-6000:])
            log('BUILD FAILED (flavour %s)' % flavour)
            return False
        log('[build %s: %.1fs]' % (flavour, time.time() - t0))
        return True
    finally:
        fcntl.flock(lock, fcntl.LOCK_UN)
        lock.close()


def binpath(b, flavour='san'):
    return os.path.join(BUILD, flavour, 'bin', b)


def base_env(tier, seed, outdir, scratch, cfg=None, fuzz=False):
    e = dict(os.environ)
    e.update({
        'VERIF_TIER': tier, 'VERIF_SEED': str(seed), 'VERIF_OUT': outdir, 'VERIF_SCRATCH': scratch,
        'VERIF_ALLOC_CAP': str(((cfg or {}).get('alloc_cap_mb') or (1024 if tier == 'thorough' else 256)) << 20),
        # libFuzzer's runtime shares un-annotated std::vector code with the annotated harness: container annotations are
        # only trusted outside fuzz mode (DESIGN.md 2.2)
        'ASAN_OPTIONS': 'detect_leaks=0:allocator_may_return_null=1:abort_on_error=0:handle_abort=0:detect_odr_violation=0:symbolize=1:exitcode=99' + (':detect_container_overflow=0' if fuzz else ''),
        'UBSAN_OPTIONS': 'print_stacktrace=1:halt_on_error=1:exitcode=99',
        'ASAN_SYMBOLIZER_PATH': shutil.which('llvm-symbolizer') or shutil.which('llvm-symbolizer-14') or '',
        'VERIF_REPO_DIR': REPO,
    })
    for fl in (cfg or {}).get('extra_flavours', []):
        e['VERIF_BIN_' + fl] = binpath((cfg or {})['bin'], fl)
    if (cfg or {}).get('nofile'):
        e['VERIF_NOFILE'] = str(cfg['nofile'])   # descriptor budget of the harness processes (default 160, see harness/common/main.cpp)
    if (cfg or {}).get('case_timeout'):
        e['VERIF_CASE_TIMEOUT'] = str(cfg['case_timeout'])
    e.pop('RC_PARAMS', None)
    return e


class Worker:
    def __init__(self, name, cmd, env, outdir):
        self.name, self.cmd, self.env, self.outdir = name, cmd, env, outdir
        os.makedirs(outdir, exist_ok=True)
        self.logf = open(os.path.join(outdir, 'log.txt'), 'wb')
        self.t0 = time.time()
        self.p = subprocess.Popen(cmd, env=env, stdout=self.logf, stderr=subprocess.STDOUT, cwd=outdir)
        self.rc = None

    def wait(self, timeout=None):
        try:
            self.rc = self.p.wait(timeout=timeout)
        except subprocess.TimeoutExpired:
            # stage time limit: ask the worker to write its counters down (SIGTERM), then make sure it is gone
            self.p.terminate()
            try:
                self.p.wait(timeout=20)
            except subprocess.TimeoutExpired:
                self.p.kill()
                self.p.wait()
            self.rc = -999
        self.logf.close()
        return self.rc


def read_stats(outdir):
    st = {'evaluations': 0, 'classes': {}, 'samples': [], 'excluded': {}, 'exhaustive': False, 'nontrivial_overflow': 0, 'nt': set()}
    p = os.path.join(outdir, 'stats.json')
    if os.path.exists(p):
        try:
            j = json.load(open(p))
            st.update({k: j.get(k, st[k]) for k in ('evaluations', 'classes', 'samples', 'excluded', 'exhaustive', 'nontrivial_overflow')})
        except Exception as ex:  # truncated on abort
            log('warning: unreadable stats in', outdir, ex)
    q = os.path.join(outdir, 'nt.bin')
    if os.path.exists(q):
        b = open(q, 'rb').read()
        n = len(b) // 8
        st['nt'] = set(struct.unpack('<%dQ' % n, b[:n * 8]))
    return st


def merge_stats(total, st, is_sweep=False):
    total['evaluations'] += st['evaluations']
    for k, v in st['classes'].items():
        total['classes'][k] = total['classes'].get(k, 0) + v
    for k, v in st['excluded'].items():
        total['excluded'][k] = total['excluded'].get(k, 0) + v
    total['nt'] |= st['nt']
    total['nontrivial_overflow'] += st['nontrivial_overflow']
    for s in st['samples']:
        if len(total['samples']) < 12:
            total['samples'].append(s)
    if is_sweep:
        total['sweep_exhaustive'] = bool(st['exhaustive'])
        total['sweep_evaluations'] = st['evaluations']


def replay_once(b, path, tier, seed, scratch, timeout_s=None):
    out = os.path.join(scratch, 'replay-out')
    shutil.rmtree(out, ignore_errors=True)
    os.makedirs(out, exist_ok=True)
    env = base_env(tier, seed, out, scratch, CURCFG)
    if timeout_s:
        env['VERIF_CASE_TIMEOUT'] = str(timeout_s)
    try:
        r = subprocess.run([binpath(b), 'replay', path], env=env, stdout=subprocess.PIPE, stderr=subprocess.STDOUT,
                           timeout=(timeout_s or 10) * 3 + 120)
        rc, txt = r.returncode, r.stdout.decode('utf-8', 'replace')
    except subprocess.TimeoutExpired as ex:
        rc, txt = 97, (ex.stdout or b'').decode('utf-8', 'replace')
    kind = 'ok'
    if rc != 0:
        kind = 'timeout' if rc == 97 else ('violation' if 'VIOLATION' in txt and rc == 1 else 'sanitizer')
    return rc, kind, txt


def confirm(b, path, tier, seed, scratch):
    """replay 3x in fresh processes; only deterministic failures count"""
    kinds, txt = [], ''
    for _ in range(3):
        rc, kind, txt = replay_once(b, path, tier, seed, scratch)
        if kind == 'timeout':
            rc, kind, txt = replay_once(b, path, tier, seed, scratch, timeout_s=60)
        kinds.append(kind)
    if all(k != 'ok' for k in kinds) and len(set(kinds)) == 1:
        return kinds[0], txt
    log('note: saved case did not reproduce as a deterministic failure (%s): %s' % (kinds, path))
    return None, txt


def confirm_history(b, hist, tier, seed, scratch):
    """The single case passes alone: replay the recorded run-up (the cases executed before it in the same process, then the case).
    A deterministic failure of that sequence is a failure that needs state left behind by earlier calls."""
    if not os.path.exists(hist):
        return None, ''
    kinds, txt = [], ''
    for _ in range(3):
        rc, kind, txt = replay_once(b, hist, tier, seed, scratch, timeout_s=120)
        kinds.append(kind)
    if all(k != 'ok' for k in kinds) and len(set(kinds)) == 1:
        log('note: the case fails only after the cases that ran before it in the same process (sequence replay %s)' % hist)
        return kinds[0], txt
    return None, txt


def split_history(data):
    if data.startswith(b'TAPES\n'):
        at, out = 6, []
        while at + 4 <= len(data):
            n = struct.unpack('<I', data[at:at + 4])[0]
            at += 4
            if at + n > len(data):
                break
            out.append(data[at:at + n])
            at += n
        return 'TAPES', out
    if data.startswith(b'SWEEPSET\n'):
        return 'SWEEPSET', [l for l in data[9:].split(b'\n') if l]
    return None, []


def join_history(fmt, items):
    if fmt == 'TAPES':
        return b'TAPES\n' + b''.join(struct.pack('<I', len(x)) + x for x in items)
    return b'SWEEPSET\n' + b''.join(x + b'\n' for x in items)


def minimise_history(b, path, kind, tier, seed, scratch, budget=60):
    """drop cases from the run-up (never the last one) while the sequence still fails the same way"""
    fmt, items = split_history(open(path, 'rb').read())
    if not fmt or len(items) < 2:
        return path
    tmp = os.path.join(scratch, 'min.hist')
    trials = 0

    def fails(its):
        nonlocal trials
        trials += 1
        open(tmp, 'wb').write(join_history(fmt, its))
        rc, k, _ = replay_once(b, tmp, tier, seed, scratch, timeout_s=120)
        return k == kind

    # failing case last; first try short tails, then remove chunks of the remaining run-up
    for keep in (1, 2, 4, 8, 16, 64):
        if keep < len(items) - 1 and trials < budget and fails(items[-(keep + 1):]):
            items = items[-(keep + 1):]
            break
    chunk = max(1, (len(items) - 1) // 2)
    while chunk >= 1 and trials < budget and len(items) > 1:
        i, changed = 0, False
        while i < len(items) - 1 and trials < budget:
            cand = items[:i] + items[min(i + chunk, len(items) - 1):]
            if len(cand) < len(items) and fails(cand):
                items, changed = cand, True
            else:
                i += chunk
        if chunk == 1 and not changed:
            break
        chunk = chunk // 2 if chunk > 1 else 1
        if chunk == 1 and not changed and len(items) <= 2:
            break
    out = path + '.min'
    open(out, 'wb').write(join_history(fmt, items))
    return out


def minimise(b, path, kind, tier, seed, scratch, budget=120):
    data = open(path, 'rb').read()
    if data.startswith(b'SWEEP '):
        return path
    trials = 0
    tmp = os.path.join(scratch, 'min.tape')

    def fails(d):
        nonlocal trials
        trials += 1
        open(tmp, 'wb').write(d)
        rc, k, _ = replay_once(b, tmp, tier, seed, scratch, timeout_s=60 if kind == 'timeout' else None)
        return k == kind

    # chunk removal (halving), then zeroing bytes
    chunk = max(1, len(data) // 2)
    while chunk >= 1 and trials < budget:
        i, changed = 0, False
        while i < len(data) and trials < budget:
            cand = data[:i] + data[i + chunk:]
            if fails(cand):
                data, changed = cand, True
            else:
                i += chunk
        if chunk == 1 and not changed:
            break
        chunk = chunk // 2 if chunk > 1 else (1 if changed else 0)
        if chunk == 0:
            break
    i = 0
    while i < len(data) and trials < budget:
        if data[i] != 0:
            cand = data[:i] + b'\0' + data[i + 1:]
            if fails(cand):
                data = cand
        i += 1
    out = path + '.min'
    open(out, 'wb').write(data)
    return out


def load_known(pid):
    p = os.path.join(VERIF, 'known_findings.jsonl')
    out = []
    if os.path.exists(p):
        for l in open(p):
            l = l.strip()
            if l and not l.startswith('#'):
                j = json.loads(l)
                if j.get('property') == pid and j.get('status') == 'known':
                    out.append(j)
    return out


def write_evidence(pid, cfg, tier, seed, total, wall, violations, extra_assumptions=()):
    nt = len(total['nt'])
    samples = []
    for s in total['samples']:
        try:
            samples.append(json.loads(s))
        except Exception:
            samples.append(s)
    cov = {
        'evaluations': int(total['evaluations']),
        'distinct_nontrivial': int(nt),
        'rule': cfg['rule'],
        'samples': samples,
        'class_histogram': total['classes'],
        'exhaustive': bool(total.get('sweep_exhaustive', False)) and cfg.get('sweep_is_whole_domain', False),
        'sweep': {'evaluations': total.get('sweep_evaluations', 0), 'completed_finite_enumeration': bool(total.get('sweep_exhaustive', False)),
                  'what': cfg.get('sweep_what', '')},
        'nontrivial_seen_after_hash_cap': int(total['nontrivial_overflow']),
        'excluded_by_known_finding': total['excluded'],
        'stages': total.get('stages', {}),
    }
    ev = {
        'property_id': pid, 'tier': tier, 'seed': int(seed), 'level': 'exploration', 'coverage': cov,
        'assumptions': list(cfg.get('assumptions', [])) + list(extra_assumptions),
        'wall_s': round(wall, 2), 'violations': int(violations),
    }
    # evidence is only ever written for /repo itself; scratch-copy runs (mutation audit) write beside their output
    edir = os.path.join(VERIF, 'evidence') if build_key() == 'default' else os.path.join(VERIF, 'out', pid, 'evidence-' + build_key())
    os.makedirs(edir, exist_ok=True)
    tmp = os.path.join(edir, pid + '.json.tmp')
    json.dump(ev, open(tmp, 'w'), indent=1)
    os.replace(tmp, os.path.join(edir, pid + '.json'))


def run_check(pid, tier, seed):
    global CURCFG
    cfg = PROPS[pid]
    CURCFG = cfg
    b = cfg['bin']
    t0 = time.time()
    flavours = ['san'] + list(cfg.get('extra_flavours', []))
    for fl in flavours:
        if not build([b], fl):
            return 2
    outroot = os.path.join(VERIF, 'out', pid, tier if build_key() == 'default' else tier + '-' + build_key())
    shutil.rmtree(outroot, ignore_errors=True)
    os.makedirs(outroot, exist_ok=True)
    scratch = '/dev/shm/op2verif-%d' % os.getpid()
    shutil.rmtree(scratch, ignore_errors=True)
    os.makedirs(scratch, exist_ok=True)
    total = {'evaluations': 0, 'classes': {}, 'samples': [], 'excluded': {}, 'nt': set(), 'nontrivial_overflow': 0, 'stages': {}}
    failures = []   # (stage, path)
    infra_error = False
    try:
        tc = cfg[tier]
        workers = []
        # ---- stage 0: regression tapes ----
        reg = sorted(glob.glob(os.path.join(VERIF, 'replay', pid, '*')))
        for f in reg:
            rc, kind, txt = replay_once(b, f, tier, seed, scratch)
            total['evaluations'] += 1
            if kind != 'ok':
                failures.append(('replay', f))
        total['stages']['replay_tapes'] = len(reg)
        # ---- stage 1..3 run concurrently: sweep, pbt workers, fuzz workers ----
        budget = NCPU
        if tc.get('sweep'):
            out = os.path.join(outroot, 'sweep')
            sweep_workers = tc.get('sweep_workers', 1)
            for i in range(sweep_workers):
                o = out if sweep_workers == 1 else out + str(i)
                env = base_env(tier, seed, o, scratch, cfg)
                env['VERIF_SWEEP_PART'] = '%d/%d' % (i, sweep_workers)
                workers.append(('sweep', Worker('sweep%d' % i, [binpath(b), 'sweep'], env, o)))
        if tc.get('pbt'):
            n, maxsize, nw = tc['pbt']
            nw = min(nw, budget)
            for i in range(nw):
                o = os.path.join(outroot, 'pbt%d' % i)
                s = seed + 7919 * i
                env = base_env(tier, s, o, scratch, cfg)
                workers.append(('pbt', Worker('pbt%d' % i, [binpath(b), 'pbt', str(max(1, n // nw)), str(maxsize)], env, o)))
        if tc.get('fuzz'):
            runs, maxlen, nw = tc['fuzz']
            seeds_dir = os.path.join(outroot, 'seeds')
            os.makedirs(seeds_dir, exist_ok=True)
            subprocess.run([binpath(b), 'seeds', seeds_dir], env=base_env(tier, seed, os.path.join(outroot, 'seedgen'), scratch),
                           stdout=subprocess.DEVNULL, stderr=subprocess.DEVNULL)
            # besides the harness' own seed files, a few pseudo-random full-length tapes (a pure function of VERIF_SEED):
            # tape-decoding harnesses read an exhausted tape as zeros, so short inputs alone would bias every choice to its first option
            import random
            rng = random.Random(seed * 1000003 + 17)
            for k in range(24):
                ln = maxlen if k % 3 else max(8, maxlen // 4)
                open(os.path.join(seeds_dir, 'rnd%02d' % k), 'wb').write(bytes(rng.getrandbits(8) for _ in range(ln)))
            for i in range(nw):
                o = os.path.join(outroot, 'fuzz%d' % i)
                corpus = os.path.join(o, 'corpus')
                os.makedirs(corpus, exist_ok=True)
                for f in os.listdir(seeds_dir):
                    shutil.copy(os.path.join(seeds_dir, f), corpus)
                s = seed + 104729 * i
                env = base_env(tier, s, o, scratch, cfg, fuzz=True)
                cmd = [binpath(b), 'fuzz', '-seed=%d' % s, '-runs=%d' % max(1, runs // nw), '-max_len=%d' % maxlen,
                       '-timeout=30', '-rss_limit_mb=6000', '-malloc_limit_mb=0', '-artifact_prefix=' + o + '/',
                       '-print_final_stats=1', '-verbosity=0', '-use_value_profile=1', '-len_control=0', corpus]
                workers.append(('fuzz', Worker('fuzz%d' % i, cmd, env, o)))
        limit = int(os.environ.get('VERIF_STAGE_TIMEOUT', '0') or 0) or tc.get('stage_timeout', 3600 if tier == 'thorough' else 1800)   # the environment override is a development aid
        deadline = time.time() + limit
        for stage, w in workers:
            rc = w.wait(timeout=max(5, deadline - time.time()))
            st = read_stats(w.outdir)
            merge_stats(total, st, is_sweep=(stage == 'sweep'))
            total['stages'][w.name] = {'rc': rc, 'evaluations': st['evaluations'], 'wall_s': round(time.time() - w.t0, 1)}
            ft = os.path.join(w.outdir, 'fail.tape')
            if os.path.exists(ft):
                failures.append((stage, ft))
            elif rc == -999:
                log('note: %s stopped at the stage time limit (inconclusive, not a violation)' % w.name)
            elif rc != 0:
                arts = [a for a in os.listdir(w.outdir) if a.startswith(('timeout-', 'oom-', 'slow-unit-'))]
                crash = [a for a in os.listdir(w.outdir) if a.startswith(('crash-', 'leak-'))]
                if crash:
                    failures.append((stage, os.path.join(w.outdir, crash[0])))
                elif arts:
                    log('note: %s ended with load noise artifact %s (ignored)' % (w.name, arts[0]))
                else:
                    log('ERROR: %s exited rc=%s without a saved case; see %s/log.txt' % (w.name, rc, w.outdir))
                    infra_error = True
        # ---- stage 4: property-specific python stage (twin-process differential etc.) ----
        if cfg.get('extra_stage'):
            import importlib
            mod = importlib.import_module(cfg['extra_stage'])
            res = mod.run(dict(pid=pid, tier=tier, seed=seed, outroot=outroot, scratch=scratch, build=BUILD, binpath=binpath,
                               base_env=base_env, total=total, repo=REPO, log=log))
            for f in res.get('failures', []):
                failures.append(('extra', f))
            if res.get('infra_error'):
                infra_error = True
        # ---- triage ----
        confirmed = []
        seen_msgs = set()
        for stage, f in failures:
            kind, txt = confirm(b, f, tier, seed, scratch) if stage != 'extra' else ('violation', '')
            final = f
            if not kind and stage in ('sweep', 'pbt', 'fuzz'):
                hist = os.path.join(os.path.dirname(f), 'fail.hist')
                kind, txt = confirm_history(b, hist, tier, seed, scratch)
                if kind:
                    final = minimise_history(b, hist, kind, tier, seed, scratch)
                    stage = 'history'
            if not kind:
                continue
            if stage in ('pbt', 'fuzz') and kind in ('sanitizer', 'timeout') or stage == 'fuzz':
                final = minimise(b, f, kind, tier, seed, scratch)
            data = open(final, 'rb').read()
            h = hashlib.sha1(data).hexdigest()[:12]
            vdir = os.path.join(VERIF, 'out', pid, 'violations' if build_key() == 'default' else 'violations-' + build_key())
            os.makedirs(vdir, exist_ok=True)
            dst = os.path.join(vdir, '%s-%s.tape' % (kind, h))
            shutil.copy(final, dst)
            msg = ''
            mp = os.path.join(os.path.dirname(f), 'fail.msg')
            if os.path.exists(mp):
                msg = open(mp, errors='replace').read().strip()
            if stage != 'extra':
                rc, k2, txt2 = replay_once(b, dst, tier, seed, scratch)
                txt = txt2
            if dst in seen_msgs:
                continue
            seen_msgs.add(dst)
            confirmed.append((kind, dst, msg, txt))
        known = load_known(pid)
        nviol = 0
        for kind, dst, msg, txt in confirmed:
            blob = msg + '\n' + txt
            k = next((k for k in known if re.search(k['match'], blob)), None)
            if k:
                log('KNOWN-FINDING: property=%s %s' % (pid, k['what']))
                continue
            nviol += 1
            log('--- %s (%s) ---' % (kind, dst))
            log(msg[:3000])
            tail = '\n'.join(txt.strip().splitlines()[-40:])
            log(tail[:6000])
            log('VIOLATION property=%s replay=%s' % (pid, dst))
        wall = time.time() - t0
        write_evidence(pid, cfg, tier, seed, total, wall, nviol)
        log('[%s %s seed=%d] evaluations=%d distinct_nontrivial=%d wall=%.1fs violations=%d' %
            (pid, tier, seed, total['evaluations'], len(total['nt']), wall, nviol))
        if nviol:
            return 1
        if infra_error:
            return 2
        floor = cfg.get('floor', {}).get(tier, 1)
        if total['evaluations'] < floor or len(total['nt']) < 2:
            log('ERROR: only %d cases (%d non-trivial) executed, floor is %d' % (total['evaluations'], len(total['nt']), floor))
            return 2
        return 0
    finally:
        shutil.rmtree(scratch, ignore_errors=True)


def do_replay(pid, path, tier, seed):
    global CURCFG
    cfg = PROPS[pid]
    CURCFG = cfg
    for fl in ['san'] + list(cfg.get('extra_flavours', [])):
        if not build([cfg['bin']], fl):
            return 2
    scratch = '/dev/shm/op2verif-%d' % os.getpid()
    os.makedirs(scratch, exist_ok=True)
    try:
        if cfg.get('extra_stage') and path.endswith('.scn'):
            import importlib
            mod = importlib.import_module(cfg['extra_stage'])
            return mod.replay(dict(pid=pid, tier=tier, seed=seed, scratch=scratch, build=BUILD, binpath=binpath, base_env=base_env, repo=REPO, log=log), path)
        rc, kind, txt = replay_once(cfg['bin'], path, tier, seed, scratch)
        log(txt[-8000:])
        if kind != 'ok':
            log('VIOLATION property=%s replay=%s' % (pid, path))
            return 1
        return 0
    finally:
        shutil.rmtree(scratch, ignore_errors=True)


def setup():
    bins = sorted(set(c['bin'] for c in PROPS.values()))
    ok = build(bins, 'san')
    extra = {}
    for c in PROPS.values():
        for fl in c.get('extra_flavours', []):
            extra.setdefault(fl, set()).add(c['bin'])
    for fl, bs in extra.items():
        ok = build(sorted(bs), fl) and ok
    return 0 if ok else 2


def main():
    ap = argparse.ArgumentParser()
    ap.add_argument('prop', nargs='?')
    ap.add_argument('--tier', default=os.environ.get('VERIF_TIER', 'quick'))
    ap.add_argument('--replay')
    ap.add_argument('--setup', action='store_true')
    a = ap.parse_args()
    seed = int(os.environ.get('VERIF_SEED', '1') or '1') or 1
    if a.setup:
        return setup()
    if not a.prop or a.prop not in PROPS:
        log('unknown property', a.prop)
        return 2
    tier = a.tier if a.tier in ('quick', 'thorough') else 'quick'
    if a.replay:
        return do_replay(a.prop, a.replay, tier, seed)
    return run_check(a.prop, tier, seed)


if __name__ == '__main__':
    sys.exit(main())
