# Per-property configuration of the checks: binaries, tiers, floors, evidence texts.
# tiers: sweep (bool), pbt=(cases, max tape size, workers), fuzz=(runs, max_len, workers)

PROPS = {}


def prop(pid, **kw):
    kw.setdefault('bin', pid.lower())
    PROPS[pid] = kw


prop('C12',
     quick=dict(sweep=True, pbt=(60000, 420, 6), fuzz=(300000, 420, 4)),
     thorough=dict(sweep=True, pbt=(1600000, 600, 10), fuzz=(8000000, 600, 5)),
     floor=dict(quick=150000, thorough=1000000), alloc_cap_mb=4,
     rule=("Histories of 1..40 operations {Read, ReadPartial, Peek, Seek, SeekForward, SeekBackward, SeekBeginning, SeekEnd, "
           "typed fixed/container/size-prefixed/NUL-string reads incl. the std::string overloads} with arguments from the boundary table {0,1,len-1,len,len+1,rem-1,rem,rem+1,"
           "2^31,2^32,2^63,2^64-1,2^64-pos,...} decoded from a byte tape (rapidcheck + libFuzzer), run on MemoryReader, MemoryReader slice, "
           "FileSliceReader, slice-of-slice (memory and file) over a 0..64 byte source (one case in eight 256..705 bytes; thorough: ..5000) with planted size prefixes; "
           "oracle = (bytes, cursor) model checked after every operation plus a closing drain. Sweep: all 2-operation histories over the "
           "(operation x boundary argument) alphabet on a 5-byte window and all single operations on empty windows, every reader kind; int8/int16 size prefixes {-1,-2,-3,-127,-128,127,126,-32768,-32767,-256,-255,32767,255,256} with 132000 bytes of data behind them (enough to satisfy the value re-read as unsigned) x element sizes 1/2 x every reader kind. "
           "Non-trivial = a history with >=1 refused operation followed by >=1 successful data read, or a short partial read followed by "
           "another operation; distinct = hash of (kind, source, window, resolved operation list)."),
     sweep_what="all ordered pairs of (operation, boundary-argument) on 5-byte windows x 5 reader kinds; all single operations on empty windows",
     assumptions=["Linux/tmpfs file semantics for file-backed slices", "allocation requests above 4 MiB fail with std::bad_alloc"],
     title="Readers deliver exactly the addressed bytes and fail atomically at bounds",
     level_text=("Generated-history search against a (bytes, cursor) reference model under ASan/UBSan, with an exhaustive sweep of all "
                 "2-operation boundary histories; no counterexample among the generated cases - absence beyond them is not shown."),
     technique="model-based property testing (rapidcheck byte-tape histories + libFuzzer) with bounded-exhaustive 2-step sweep, ASan/UBSan",
     design_ref="DESIGN.md section 3, C12")

prop('C13',
     quick=dict(sweep=True, pbt=(48000, 700, 10), fuzz=(160000, 700, 4)),
     thorough=dict(sweep=True, pbt=(800000, 900, 10), fuzz=(2000000, 900, 5)),
     floor=dict(quick=60000, thorough=300000), alloc_cap_mb=16,
     rule=("Forest histories: a 0..200 byte source (thorough ..2000) held in memory and in a file, optional reference-encoded VOL and CLM "
           "archives; 1..60 twelve-byte records decoded from a tape choose among Slice(s,n)/Slice(n)/copy of any live stream (depth<=5, <=14 live), "
           "Read/ReadPartial/Peek/Seek/SeekForward/SeekBackward/SeekBeginning/SeekEnd on any live stream, drop, and archive calls "
           "(GetName, GetSize, OpenStream -> joins the forest, ExtractFile) with slice parameters from {0,len,len+1,end-anchored,2^63,2^64-1,2^64-s,...}. "
           "Oracle: every stream = absolute window + own cursor; after every step every live stream's Position()/Length() equals its model, bytes read "
           "equal source[a+pos..], uncontained slices (incl. via wrap) are refused leaving the parent, Slice(n) advances the parent only on success. "
           "One case in five is a backend-equivalence case: the same in-bounds sequence on memory, file, slice-of-memory, slice-of-file and both "
           "slice-of-slice views of one window must give identical (position, length, bytes) traces. Sweep: all 144 (s,n) boundary pairs x 2 slice "
           "forms x 3 parent kinds x moved/unmoved parent on sources of length 0,1,5. Non-trivial = >=3 live file-backed streams with operations "
           "on >=2 different streams (forest) or a window >=2 bytes with >=3 operations (equivalence); distinct = hash of source and records."),
     sweep_what="all (start,length) pairs from the 12-value boundary table x {Slice(s,n), Slice(n)} x {memory, file, file-slice parent} x {fresh, moved} on sources of length 0, 1, 5",
     assumptions=["plain FileReader nodes only receive in-bounds operations (the property quantifies in-bounds sequences for backend equivalence)", "Linux/tmpfs file semantics"],
     title="Slices are confined, independent, and equivalent across stream backends",
     level_text=("Stateful generated search over forests of interleaved streams against a window+cursor model checked after every step, plus differential "
                 "traces across six backends, under ASan/UBSan; exhaustive sweep of boundary slice parameters on tiny sources."),
     technique="stateful model-based property testing (tape-decoded forests; rapidcheck + libFuzzer), cross-backend differential traces, boundary sweep",
     design_ref="DESIGN.md section 3, C13")

prop('C14',
     quick=dict(sweep=True, pbt=(40000, 600, 8), fuzz=(100000, 600, 4)),
     thorough=dict(sweep=True, pbt=(1600000, 700, 10), fuzz=(500000, 700, 5)),
     floor=dict(quick=40000, thorough=500000), alloc_cap_mb=16,
     rule=("Six generated families chosen by the tape: (a) MemoryWriter over a 0..64 byte buffer between two 32-byte canary zones with 1..40 "
           "operations {Write(k), typed writes, Seek, SeekForward, SeekBackward, SeekBeginning/End} and boundary arguments "
           "{0,1,len-1,len,len+1,rem-1,rem,rem+1,2^31,2^32,2^63,2^64-1,2^64-pos,...}; (b) DynamicMemoryWriter histories incl. growth seeks <=1 MiB "
           "and {2^40,2^63,2^64-1} which must fail cleanly; (c) size-prefixed writes of containers at/beyond each prefix maximum (i8,u8,i16,u16,u32,i32); "
           "(d) typed write -> typed read inverse incl. std::string, std::u16string and std::u32string in plain and size-prefixed form; (e) Writer::Write<Chunk>(Reader&) for Chunk in {1,2,3,7,16,4096,131072,default} x source length "
           "classes {0,1,C-1,C,C+1,2C-1,2C+1,3C+5,random} x start x source backend {memory,file,memory slice,file slice} x destination {dynamic,fixed,file}; "
           "(f) FileWriter open flags x file exists x data (up to 70001 bytes), written in one call, in three calls, through a move-constructed writer, or through a writer moved into a heap object whose original is destroyed before the data is written. Oracle: array/vector + cursor model compared after every operation, canaries intact; "
           "refusal iff the container exceeds the prefix maximum; destination == source[start..] and reader at its end; file system state per flag semantics. "
           "Sweep: full (c) matrix, full (e) matrix (8x8x4x3x2), full (f) matrix (16 flag sets x exists x 3 data variants), all 2-step MemoryWriter "
           "histories over 5 operations x 14 boundary classes on a 5-byte buffer. Non-trivial = history with a refused operation followed by a successful "
           "write (a,b); every (c)/(f) case; copies whose length is not a multiple of the chunk (e); >=3 typed items (d)."),
     sweep_what="(c) 10 sizes x 6 prefix types; (e) 8 chunks x 8 length classes x 4 backends x 3 destinations x 2 starts; (f) 16 flag sets x {exists, absent} x 3 data variants; (a) all 2-step histories (5 ops x 14 argument classes)^2 on a 5-byte buffer",
     assumptions=["for an existing file opened with neither Truncate nor Append the statement makes no content claim; only absence of errors is required", "Linux/tmpfs file semantics"],
     title="Writers write exactly what the history implies and refuse what does not fit",
     level_text=("Generated histories against array/vector models with guard zones under ASan/UBSan, plus complete matrices for prefix limits, "
                 "chunked copies and file open flags; exploration - no counterexample among generated cases."),
     technique="model-based property testing (rapidcheck + libFuzzer tape histories), exhaustive configuration matrices, ASan/UBSan with canary zones",
     design_ref="DESIGN.md section 3, C14")

prop('C19',
     quick=dict(sweep=True, pbt=(60000, 300, 6), fuzz=(200000, 300, 4)),
     thorough=dict(sweep=True, pbt=(2000000, 400, 10), fuzz=(2500000, 400, 5), stage_timeout=3600),
     floor=dict(quick=5000000, thorough=4000000000), alloc_cap_mb=64,
     rule=("Sweep (exhaustive): all 820 strings of length <=3 over {a,A,b,Z,z,0,_,.,/} - every unordered pair for asymmetry, IsEqual == ASCII case-fold "
           "equality == incomparability, PathsAreEqual symmetry and containment of IsEqual; every triple of the 91 strings of length <=2 for transitivity of "
           "the order, of incomparability and of PathsAreEqual; per string irreflexivity/reflexivity, p ~ ./p for every relative p (plain and directory-"
           "qualified counted separately), split+re-join for every p with a file-name component; the full PathsAreEqual relation matrix over the 820 strings plus 158 redundant spellings (a//b, a/./b, ./a/b/, a/. ...) checked for reflexivity, symmetry and transitivity; join law over 91x820 (dir, name) pairs; extension law over "
           "820 names x 7 extensions x 8 case masks x dot/no-dot; IsPowerOf2 against popcount for all values with <=3 bits set, their +-1 neighbours and "
           "complements plus 2^24 pseudo-random values (thorough: all 2^32 values), Log2OfPowerOf2 for all 32 powers. pbt/fuzz: random strings <=40 bytes "
           "incl. bytes >=0x80, punctuation between the letter cases, case variants, prefixes, path-shaped strings, name lists (sort yields a sorted "
           "permutation with equal-ignoring-case names adjacent; adjacent-duplicate scan complete). Non-trivial = pair differing only in case or one a proper "
           "prefix of the other, sort lists with a duplicate, directory-qualified paths, extension cases; distinct by content hash."),
     sweep_what="all pairs of 820 short strings, all triples of 91, join/extension/dot-slash/re-join laws over the same strings, bit helpers (quick: sparse+2^24 random; thorough: all 2^32)",
     sweep_is_whole_domain=False,
     assumptions=["C locale (tolower/toupper act on ASCII only)", "paths starting with '//' (implementation-defined root name) and paths ending in '/' are outside the split/re-join law's domain",
                  "extension law: names with at least one non-dot character, alphanumeric extensions"],
     title="Ordering, path-equality and bit helpers obey the laws their callers assume",
     level_text=("Bounded-exhaustive enumeration of short strings and (thorough) all 2^32 words, plus random longer strings, against algebraic laws and reference "
                 "predicates; exhaustive only for the enumerated sub-domains."),
     technique="bounded-exhaustive law checking + property-based testing of algebraic laws (rapidcheck, libFuzzer) against reference predicates",
     design_ref="DESIGN.md section 3, C19")

prop('C15',
     quick=dict(sweep=True, pbt=(6000, 12000, 10), fuzz=(12000, 8000, 4)),
     thorough=dict(sweep=True, pbt=(160000, 30000, 12), fuzz=(400000, 16000, 4), stage_timeout=3000),
     floor=dict(quick=25000, thorough=1000000), alloc_cap_mb=64,
     rule=("Sweep: every update sequence up to depth d on trees of n=2..6 symbols (quick d=10,8,7,6,5; thorough d=14,10,9,8,7), each prefix checked; initial trees "
           "for every n=2..330 with out-of-range symbols/nodes refused without change; runs of exactly 65535-n updates (round-robin, single-symbol, pseudo-random) on "
           "n=2,3,314 (thorough also 4,5,17,100,313), then three further updates that must be refused leaving shape and all bit strings unchanged; deep runs on n=24,40,100,314: chain symbols receive 1+(weight of everything lighter) updates each, which stacks them one per level (codes of 19..21 bits, beyond a 16-bit accumulator), in two update orders; out-of-range symbols n, n+1, 2n-1, 32768, 32768+n, 65536-2n, 65536-(2n-1), 65536-n, 65534, 65535. pbt/fuzz: n from "
           "{2..8,16,31..33,64,100,255,256,313,314, random 2..314}, 1..5000 updates (thorough 20000) drawn uniform / skewed / single-symbol / round-robin / sawtooth / "
           "seeded-PRNG, checked every len/48 updates and at the end. Oracle at each check: simultaneous walk of the library tree (GetRootNodeIndex/GetChildNode/IsLeaf/"
           "GetNodeData) and an independent freq/prnt/son sibling-property implementation: same shape, 2n-1 reachable nodes, every symbol on exactly one leaf; "
           "GetEncodedBitString length == leaf depth and the bits drive the walk to the symbol in one bit order for the whole tree. Non-trivial = a history in which "
           "the shape differs from the previous check (a swap moved a leaf), or a capacity-crossing run; distinct = hash of (n, symbol sequence)."),
     sweep_what="all update sequences to the stated depth on 2..6 symbols; all initial sizes 2..330; capacity-crossing runs",
     assumptions=["capacity = root count may not exceed 65535, i.e. 65535-n updates (65221 for the 314-symbol tree)", "either LSB-first or MSB-first bit order is accepted for the encoder, but one order for the whole tree"],
     title="Adaptive Huffman tree stays a valid code equal to the reference on every history",
     level_text=("Bounded-exhaustive histories on small trees plus generated long histories on trees up to 314 symbols, differential against an independent reference "
                 "implementation and structural validity predicates; capacity boundary exercised exactly."),
     technique="differential property-based testing against a reference implementation (rapidcheck + libFuzzer), bounded-exhaustive history enumeration",
     design_ref="DESIGN.md section 3, C15")

prop('C04',
     quick=dict(sweep=True, pbt=(8000, 1500, 10), fuzz=(30000, 1500, 5)),
     thorough=dict(sweep=True, pbt=(400000, 8000, 11), fuzz=(1500000, 6000, 5), stage_timeout=3400),
     floor=dict(quick=12000, thorough=1000000), alloc_cap_mb=64,
     rule=("Inputs from three families chosen by the tape: random bytes (0..4096; thorough ..20000), constant/periodic bytes (cheap way past the 65221-update capacity), "
           "and streams produced by an independent token-level encoder from literal/match token lists (every match length 3..60, distances from each of the six "
           "position-code length classes incl. 1, 4096 and matches overlapping the write cursor or reaching into the space-filled window). Each input is decoded by an "
           "independent reference decoder (4 KiB space-filled window, 314-symbol adaptive Huffman, bits past the end read as 0, stop test after each code, error at "
           "the 65222nd update) and by the library twice: through GetInternalBuffer until it reports 0 and through GetData with a cyclic schedule of sizes from "
           "{1,2,3,61,62,63,4033,4034,4035,4095,4096,4097,10000,random}; in half the cases a third decoder is drained through BOTH interfaces interleaved in one session (2..6-step cyclic schedule of GetInternalBuffer / GetData(k), k incl. 96,1000,3000,4096,8192: copies adding up to multiples of the window followed by the internal interface); one case in six also extracts the stream as an LZH member of a reference-encoded VOL and, with its half and its first byte as two more LZH members, in the order 0,1,2,1,0,2 through ONE archive object (every file must be its own decode). "
           "Oracle: outputs equal the reference; beyond capacity the library must throw and what it delivered must be a prefix of the reference output; termination "
           "by output limit + watchdog. Sweep: 58 lengths x 14 boundary distances; a 2600-token window-wrapping stream under every drain size and 28 mixed-interface schedules ({4096},{1000,3000,96},{4095},{4097},{1},{2048,2048},{8192},{61,4035},{4034,62} copies x internal call before/after/twice; 4096 single-byte copies then internal); every prefix of an "
           "encoded stream; four capacity-crossing inputs and the exact capacity edge. Non-trivial = output > 4096 bytes (window wrap) or >= 1 match; distinct = hash of input."),
     sweep_what="58 match lengths x 14 distances; all 13 drain sizes + mixed + internal + VOL path on a wrapping stream; all prefixes of one stream; capacity-crossing inputs",
     assumptions=["sessions mixing both drain interfaces are asserted too: both drain the same queue (HuffLZ.cpp: two drain paths over the same indices), the stream has ended when the internal-buffer call reports 0 or a copy comes back short", "for the empty input either the reference output or no output is accepted"],
     title="LZH decompression equals the reference decoder, however it is drained",
     level_text=("Differential testing against an independent decoder and encoder over generated byte strings and token streams, both drain interfaces, under ASan/UBSan; "
                 "exploration with directed boundary sweeps."),
     technique="differential property-based testing / fuzzing against an independent reference decoder+encoder (rapidcheck, libFuzzer), ASan/UBSan",
     design_ref="DESIGN.md section 3, C04")

prop('C01',
     quick=dict(sweep=True, pbt=(4000, 900, 10), fuzz=(8000, 900, 4)),
     thorough=dict(sweep=True, pbt=(200000, 2500, 11), fuzz=(160000, 2500, 4), stage_timeout=3400),
     floor=dict(quick=4000, thorough=100000), alloc_cap_mb=64,
     rule=("File sets decoded from a tape: 0..12 files (thorough ..40), sizes from {0,1,2,3,4,5..64,131071..131075,262143..262146,<=40000 (thorough 300000),<300}, pseudo-random "
           "contents, names of 1..24 characters over letters of both cases, digits and the punctuation _^[]`-.,+=@#~!(){} and space (distinct ignoring case; one later name in four extends an earlier name in another letter case by .txt/.old/x/_/0/./space - prefix-related names), placed in ./in/, "
           "./in/d0/, ./in/d1/sub/, listed in a tape-chosen permutation and spelling (x, ./x, d//x, d/./x, absolute); output path spelled five ways, pre-existing in half the cases, or (one case in eight) placed next to an input under a name that is a proper prefix of that input's name. "
           "Oracle: archive reopened with VolFile lists n members in reference (_stricmp) order of the final path components with exact sizes and the uncompressed kind; member "
           "streams drained with tape-chosen read sizes, ExtractFile by case-varied name and ExtractAllFiles all return the input bytes; Contains/GetIndex succeed in three case "
           "variants; inputs unmodified. One case in eight lists two inputs equal ignoring case (same or different directories), one in eight lets the output path name an input "
           "up to letter case and one leading './' (plain and directory-qualified spellings, existing and non-existing targets): CreateArchive must throw and every pre-existing "
           "file must be byte-identical afterwards / no new output may exist. Sweep: empty set; all 16 (size mod 4 x name-table mod 4) residue pairs x 1..3 files x small/128 KiB "
           "x 4 output spellings; every size in [131070,131074] and [262142,262146]; sets of 17, 64 and 150 members whose 2-3 character names are built systematically from {a,B,_,z,[,Z,0,^,.,`,A,-,b,~,{,@} so that every ordering corner (prefix, case, punctuation between the letter cases) occurs between neighbours. Non-trivial = >=2 members of which >=1 non-empty, or any refusal case; distinct = hash of "
           "names, sizes and spellings."),
     sweep_what="all residue pairs of (file size mod 4, name table mod 4) with 1-3 files, sizes around one and two 128 KiB copy chunks, empty set, 17/64/150-member sets with systematic punctuation names",
     assumptions=["Linux (case-sensitive) file system: an output differing from an input only in case is a different file, yet must still be refused per the statement", "names are ASCII"],
     title="VOL pack, reopen, extract returns exactly the files that went in",
     level_text=("Round-trip and refusal properties over generated file sets with an independent ordering model and byte-exact comparison, under ASan/UBSan; exploration."),
     technique="round-trip property-based testing (rapidcheck + libFuzzer on structured tapes) with residue-class sweeps",
     design_ref="DESIGN.md section 3, C01")

prop('C02',
     quick=dict(sweep=True, pbt=(8000, 900, 10), fuzz=(16000, 900, 4)),
     thorough=dict(sweep=True, pbt=(400000, 2000, 11), fuzz=(1000000, 2000, 4), stage_timeout=3400),
     floor=dict(quick=8000, thorough=200000), alloc_cap_mb=64,
     rule=("(i) One case in three packs a generated file set (generator of C01) with the library and hands the raw bytes to an independent strict VOL decoder that asserts, field by "
           "field: 'VOL ' length tiles the header (= padded tables + 24) and the first block follows it; 'volh' length 0; 'vols' = u32 actual length + NUL-terminated names in "
           "index order at the recorded offsets + zero pad to 4; 'voli' = 14-byte entries + zero pad; every section word carries the 4-byte-padding flag; block offsets 4-aligned, "
           "contiguous, VBLK length == entry size, zero padded, last block ends at EOF; names strictly ascending case-insensitively and an actual binary search finds each. "
           "(ii) Otherwise an independent encoder emits an archive from a tape: 0..10 members (names as C01, sorted), random or LZH-compressed payloads (encoded by the reference "
           "LZH encoder; index size = uncompressed length), 0..5 unused trailing index slots (name offset 0xFFFFFFFF, arbitrary other fields or the block offset of a real member; every per-member call must refuse their indices), optional extra zero words after the "
           "name table, optionally (class beta) an index length that also covers 1..13 padding bytes. VolFile must list the same names, sizes, kinds, stream exactly the stored "
           "payloads and extract the expanded bytes; for class beta a clean refusal at open is also accepted. Sweep: 64 written residue combinations; 5 member counts x 4 unused-slot "
           "counts x 14 index-length extras x 2 paddings. Non-trivial = >=1 member; distinct = hash of names/payloads/options."),
     sweep_what="written: (size mod 4) x (table mod 4) x 0..3 files; read: 0..4 members x 0..3 unused slots x 0..13 extra index bytes x 0..1 name pad words",
     assumptions=["an index section whose length is not a multiple of the entry size is of arguable conformance: same listing or clean refusal accepted (memory safety on it is C05)"],
     title="Written VOLs obey the VOL format; format-conforming VOLs are read back",
     level_text=("Differential validation in both directions against an independent encoder and strict decoder of the VOL format over generated archives, under ASan/UBSan; exploration."),
     technique="differential property-based testing against an independent format encoder/strict decoder (rapidcheck + libFuzzer), configuration sweep",
     design_ref="DESIGN.md section 3, C02")

prop('C05',
     quick=dict(sweep=True, pbt=(20000, 400, 10), fuzz=(100000, 700, 5)),
     thorough=dict(sweep=True, pbt=(300000, 600, 10), fuzz=(3000000, 900, 6), stage_timeout=3400),
     floor=dict(quick=40000, thorough=300000), alloc_cap_mb=128,
     rule=("Sweep over 6 reference-encoded VOL seeds (empty, 1 member, 4 members incl. zero-length and LZH, unused trailing slots, extra name padding, LZH member last), 3 CLM seeds and 6 WAV seeds: "
           "every proper prefix; every 32-bit field (section lengths, name-table length, every index field, VBLK headers; CLM version/format/count/name/offset/length; RIFF and chunk "
           "lengths) x {0,1,2,13,14,15,v-1,v+1,v^2^31,file size +-1,file size-8,2^31-1,2^31,0xFFFFFFF8,0xFFFFFFFF,...}; coordinated pairs (index length +1..28, name table shortened "
           "by 1..n, NUL terminators removed so that entries outnumber names). pbt/fuzz: tape = kind + seed + 1..3 mutations (field boundary value, truncate, byte, insert, delete, "
           "append) + up to 24 call records (GetCount, GetName, GetSize, GetCompressionCode, GetIndex, Contains, OpenStream+read, ExtractFile; index 0..8, 2^32-1, 2^64-1..) followed by "
           "the full call table for indices 0..7 twice plus extract/extract/stream/stream/extract on each index in a row; libFuzzer also mutates raw archive/WAV bytes from the seed corpus. Oracle: no sanitizer report, no reproduced hang, only "
           "std::exception; every call outcome on the long-lived object equals the outcome of the same call on a fresh object (failed calls leave it usable); indices >= count refused; "
           "an over-long read on a member stream is refused and leaves its position, after which the whole member is still delivered; a delivered member stream/extraction is exactly file[offset+8,+VBLK length) (CLM: [dataOffset,+dataLength)) per the harness' own parse, and a recorded extent outside the "
           "file is never delivered - for compressed members too (extraction must be refused, not run on the bytes that are left); WAV bytes given to CLM creation end in an error or a re-openable archive. Non-trivial = archive opens and a per-member call succeeds after "
           "another failed, or a corruption rejected beyond the first tag check; distinct = hash of bytes and calls."),
     sweep_what="all prefixes and (field x boundary value) substitutions of 6 VOL + 3 CLM + 6 WAV seeds, coordinated index/name-table corruptions",
     assumptions=["allocation requests above 128 MiB fail with std::bad_alloc (memory-limited host)", "ExtractAllFiles is only exercised when the harness' own parse shows every member name to be harmless"],
     title="VOL/CLM readers and WAV intake are safe on arbitrary bytes",
     level_text=("Fault-injection sweeps plus structure-aware and raw-byte fuzzing with differential (fresh-object) and extent oracles under ASan/UBSan with watchdog; exploration."),
     technique="structure-aware + coverage-guided fuzzing (libFuzzer), rapidcheck mutation plans, exhaustive prefix/field-boundary sweeps, fresh-object differential oracle, ASan/UBSan",
     design_ref="DESIGN.md section 3, C05")

prop('C03',
     quick=dict(sweep=True, pbt=(20000, 700, 10), fuzz=(40000, 700, 4)),
     thorough=dict(sweep=True, pbt=(200000, 1500, 11), fuzz=(500000, 1500, 4), stage_timeout=3400),
     floor=dict(quick=20000, thorough=100000), alloc_cap_mb=64,
     rule=("WAV sets decoded from a tape: 0..8 RIFF/WAVE files sharing a random WaveFormat, 'fmt ' chunk of 16 or 18 bytes, 'data' length from {0,1,2,3,7,64,100,4096,random<=4096 "
           "(thorough 200000)} (odd lengths padded per RIFF when a chunk follows), 0..2 extra even-sized chunks with tags from {LIST,'cue ',fact,smpl,JUNK,abcd,DATA,'Fmt '} before "
           "'fmt ', 0..1 between 'fmt ' and 'data', 0..2 after 'data'; RIFF size = file-8; base names 1..8 characters [A-Za-z0-9_] distinct ignoring case, extension .wav in four letter "
           "cases, three directories, listed in a tape-chosen permutation. Oracle: the written CLM parsed by an independent strict decoder (32-byte version string, format, {0,0,0,0,1,0}, "
           "count, zero-padded 8-byte names in case-insensitive order, offsets contiguous from 60+16n, EOF = last offset+length); ClmFile lists base names/data lengths, OpenStream "
           "returns exactly the data bytes; ExtractFile/ExtractAllFiles output parsed by a strict WAV parser (RIFF size, one 18-byte fmt with the common format, one data chunk with "
           "exactly the bytes, nothing after). Four modes in ten are negative: 9-character name, two names equal ignoring case, one file with a different format, non-RIFF/non-WAVE/"
           "truncated/size-mismatched/fmt-less file - creation must throw and leave inputs untouched. Sweep: 8 chunk placements x fmt16/18 x 5 data lengths x 1..3 tracks; empty set; "
           "name lengths 7..10; audio data of 131071..131073, 262143..262145 and 393216 bytes (one to three 128 KiB copy chunks) followed by a second track, with and without a chunk after the data. Non-trivial = >=2 tracks with a chunk before 'fmt ' or after 'data' somewhere, or any refusal case."),
     sweep_what="all 8 combinations of extra-chunk placement x fmt size x data lengths {0,1,2,5,4096} x 1..3 tracks; name lengths 7..10; empty set; data lengths around 1-3 copy chunks of 128 KiB",
     assumptions=["extra chunks are even-sized (the statement's domain)", "base names are ASCII letters, digits, underscore"],
     title="CLM pack, reopen, extract preserves every track's audio data and format",
     level_text=("Round-trip property testing over generated WAV sets with independent CLM/WAV builders and strict parsers, including negative inputs, under ASan/UBSan; exploration."),
     technique="round-trip + differential property-based testing against independent RIFF/CLM encoders and strict decoders (rapidcheck + libFuzzer), layout sweep",
     design_ref="DESIGN.md section 3, C03")

prop('C17',
     quick=dict(sweep=True, pbt=(5000, 500, 10), fuzz=(9000, 500, 4)),
     thorough=dict(sweep=True, pbt=(100000, 700, 11), fuzz=(200000, 700, 4), stage_timeout=3400),
     floor=dict(quick=4000, thorough=50000), alloc_cap_mb=64,
     rule=("Directory layouts decoded from a tape inside a digit-named scratch directory: 0..6 loose files, 0..3 VOL and 0..2 CLM archives written by independent encoders, names drawn "
           "from a 16-name pool (incl. .a.txt and ..b.dat, whose leading dots are not a ./ prefix) chosen so that loose files and members collide in all letter-case variants (a.txt/A.TXT/a.TXT, b.dat/B.dat, trk1/TRK1, ...), archives optionally with "
           "duplicate member names, VOL archives optionally with 1..3 unused trailing index slots (stale fields zero or random), optionally with upper-case extensions (not loaded), optional sub-directory, directories named 8.vol and 9.clm. Per layout: archive-level laws on each "
           "archive (Contains <=> GetIndex does not throw <=> model; index names the first member equal ignoring case and './'; GetIndex(GetName(i))==i when duplicate-free; every "
           "per-member call incl. GetCompressionCode refuses indices count..count+3 (unused slots), 2^32-1 and 2^64-1), then 20 GetResourceStream queries (pool names in random case, with/without './', unknown, sub-directory "
           "paths, archives enabled/disabled) against the model loose-exact-spelling > member of any loaded archive > nothing, FindContainingArchivePath soundness/completeness, rooted "
           "paths refused, GetArchiveFilenames = .vol files then .clm files, type listings for 8 extensions x archives on/off (loose files by exact dot-extension, then exactly one "
           "member per new name class, case-blind) and pattern listings for 8 letter patterns (multiset equality). Sweep: each pool name placed loose / in one / in three archives / both, "
           "6 query tapes each. Non-trivial = a query whose name exists both loose and in an archive, only in an archive (possibly in another case), or is hidden by disabled archive access."),
     sweep_what="each of 16 pool names x {loose only, one archive, three archives, loose + three archives} x 6 query tapes",
     assumptions=["Linux case-sensitive directory; archives are picked up by exact '.vol'/'.clm' extension", "which of several archives holding a name wins is not asserted",
                  "pattern listings match loose files by their path below the (digit-named) resource directory as the implementation documents; patterns are letter-only and unanchored at the start"],
     title="Name lookup and resource resolution are case-blind, consistent, loose-file-first",
     level_text=("Model-based testing of lookup/resolution/listing against a layout model over generated directory layouts with reference-encoded archives; exploration."),
     technique="model-based property testing over generated directory layouts (rapidcheck + libFuzzer tapes) with independent archive encoders",
     design_ref="DESIGN.md section 3, C17")

prop('C20',
     quick=dict(sweep=True, pbt=(60000, 200, 10)),
     thorough=dict(sweep=True, pbt=(300000, 200, 12), stage_timeout=3400),
     floor=dict(quick=20000, thorough=100000), alloc_cap_mb=64, case_timeout=600,
     rule=("Every case is at or just beyond an on-disk limit. Sweep (exhaustive for the layer matrix): ArtFile::Write of a frame with every 7-bit layer count 0..127 against every layer-list "
           "length 0..130 (16768 combinations: must throw iff they differ, else re-read equal) plus list lengths count+128/256/384/512/1024/65536 for every count (a narrowed comparison would pass them); size-prefixed writes of 127/128/255/256/32767/32768/65535/65536 elements with i8/u8/i16/u16/u32 "
           "prefixes; CLM names of 7..10 characters and dotted stems (abcd.efg, snd1.take2, .longername, a..b, ...: the whole stem before the last extension counts); frames whose count/list differences cancel (+d and -d, d in {1,2,5,64,127}, within one animation and across two); VolFile::CreateArchive with sparse members of 2^31, 2^31+1, 2^32-1, 2^32, 2^32+5 bytes among small ones and member sets whose block offsets "
           "cross 2^32 although every member fits (4 x 1.5 GiB; 3 x (2^31-1); ...), destination absent and pre-existing; ClmFile::CreateArchive with sparse WAVs whose data offsets cross 2^32; "
           "thorough additionally really writes and re-reads a member of 2^31-1 bytes. The must-refuse archive calls run in a forked child under RLIMIT_FSIZE=1 MiB whose SIGXFSZ handler exits "
           "with a distinctive status, so a tree that wrongly starts writing is convicted in milliseconds. Oracle: does not fit => std::exception (child status 0), never 'returned normally' and "
           "never 'started writing'; for VOL the destination afterwards does not exist or still holds its previous bytes; fits => success and the value re-reads. pbt: random plans beyond a "
           "limit (oversized member position/size, offset-crossing sets, CLM sets, name lengths, container sizes, layer pairs). Non-trivial = every case (all are at/beyond a limit); distinct by plan hash."),
     sweep_what="layer count x list length (128 x 131, complete); prefix limits; VOL member-size and offset limits x destination state; CLM offset limits; name lengths",
     sweep_is_whole_domain=False,
     assumptions=["sparse files on tmpfs stand in for multi-GiB inputs", "a member larger than 2^31-1 bytes does not fit the 31-bit block length field"],
     title="Writers refuse quantities that do not fit their on-disk fields",
     level_text=("Boundary-value enumeration at every on-disk limit with an explicit fits/does-not-fit oracle, exhaustive for the layer matrix; generated plans beyond the limits; exploration."),
     technique="boundary-value enumeration + property-based generation of over-limit plans, forked children under RLIMIT_FSIZE as fault detector",
     design_ref="DESIGN.md section 3, C20")

prop('C06',
     quick=dict(sweep=True, pbt=(12000, 700, 10), fuzz=(40000, 700, 5)),
     thorough=dict(sweep=True, pbt=(600000, 900, 11), fuzz=(1000000, 900, 5), stage_timeout=3400),
     floor=dict(quick=16000, thorough=500000), alloc_cap_mb=256,
     rule=("Logical maps decoded from a tape and serialised by an independent encoder: log2 width 0..10, height 0..(tiles <= 65536; thorough 2^20), tile words random / multiplicative / low-half, "
           "arbitrary clip rectangle, 0..8 tileset sources (names 0..8 bytes, empty names carry no tile count), 0..40 or 2048 mappings (all four 16-bit fields arbitrary in half the maps), 0..4 terrain types (264 bytes), 0..6 tile groups incl. zero "
           "area and up to 257 tiles wide with names 0..20, saved-game flag from {0,1,2,-1,256,INT_MIN,random}, version tags >= 0x1010 incl. 0x80000000/0xFFFFFFFF, arbitrary 'unknown' group-header word, optional trailing "
           "bytes; read through MemoryReader or a file, written through a memory writer or Map::Write(filename). Oracle: every public field/getter equals the logical map; Write == consumed input bytes with flag normalised and the unknown word masked == "
           "reference serialisation; Write(Read(w)) == w. Then 0..30 edits (SetCellType with all 32 types / SetLavaPossible on in-range coordinates of maps >= 32 wide, SetVersionTag incl. values "
           "below 0x1010, TrimTilesetSources) applied to library object and model: fields equal, Write == reference serialisation of the edited model, re-read equal and byte-stable, or an ordinary "
           "error exactly when the tag was set below 0x1010. Sweep: 11 widths x 4 heights x 6 table-shape variants with a 12-edit script. Non-trivial = >=1 tile and >=1 non-empty table."),
     sweep_what="all widths 2^0..2^10 x heights {0,1,2,33} x 6 table shapes (empty tables, empty-name sources, terrain types, zero-area groups, arbitrary unknown word + trailing bytes, min tag)",
     assumptions=["cell edits only on maps at least 32 tiles wide and in-range coordinates (the addressing precondition, cf. C16)", "tile-group area products are kept below 2^32"],
     title="Map read/write round-trips every field and is byte-stable",
     level_text=("Round-trip, byte-stability and edit-locality properties over generated maps with an independent serialiser as oracle, under ASan/UBSan; exploration."),
     technique="round-trip / model-based property testing against an independent map serialiser (rapidcheck + libFuzzer tapes), shape sweep",
     design_ref="DESIGN.md section 3, C06")

prop('C07',
     quick=dict(sweep=True, pbt=(5000, 500, 10), fuzz=(40000, 600, 5)),
     thorough=dict(sweep=True, pbt=(400000, 800, 10), fuzz=(8000000, 800, 6), stage_timeout=3400),
     floor=dict(quick=100000, thorough=1000000), alloc_cap_mb=64, case_timeout=90,
     rule=("Sweep: 4 reference-encoded maps (no tiles; 32x2; 2x3 with every table populated; 64x1 saved-flag) - every proper prefix of the consumed portion must be rejected, the intact file accepted "
           "with all fields equal; every header/length field x {0,1,5,8..11,16,20,30..33,63,64,255,2^16,2^31-1,2^31,2^32-1,0x100F,0x1010,v+-1}; all 17x13 (log2 width, height) pairs incl. log2 >= 32 and "
           "products beyond 2^32 on a tile-less map (so a wrapped tile count would be accepted); saved games (0x1E025 filler bytes + map beginning + tag + unit block with 0..2 object-1 records, "
           "0..3 object-2 words, optional free-unit table + tag): result equals ReadMap on a map file embedding the same map portion (dimensions, tiles, clip rectangle, sources, mappings, terrain "
           "types), bad unit size rejected, unit sizes 0,1,64,119,121,240,2^32-1 with NO units recorded accepted as the same map, prefixes every 97th byte and +-8 around each field boundary (thorough: all ~370000 prefixes of one saved game), every saved-game field x boundary values. "
           "pbt/fuzz: structure-aware tapes (generated map or saved game + 1..3 corruptions: field boundary value, truncation, byte flip) through MemoryReader and file entry points, generated "
           "valid maps with sampled prefixes, saved-game equivalence on generated maps, and raw bytes into ReadMap (libFuzzer, seeded with the 4 maps). Oracle: ordinary error, or a map whose "
           "width is 2^(log2 field) < 2^32 and whose tile array has exactly width x height entries computed in 64 bits; no sanitizer report (over-wide shifts are UBSan-fatal); watchdog. "
           "Non-trivial = accepted input with >=1 tile, or input rejected after passing the first version-tag check."),
     sweep_what="all prefixes of 4 maps; (field x boundary) tables for maps and saved games; 221 (log2 width, height) pairs; saved-game prefixes (sampled / all) and equivalence",
     assumptions=["allocation requests above 64 MiB fail with std::bad_alloc (memory-limited host), so tile counts up to 2^32 are executed rather than skipped"],
     title="Map and saved-game readers are safe and self-consistent on arbitrary bytes",
     level_text=("Fault-injection sweeps, structure-aware and raw coverage-guided fuzzing with a dimensional-consistency oracle and map/saved-game differential under ASan/UBSan; exploration."),
     technique="structure-aware + raw coverage-guided fuzzing (libFuzzer), rapidcheck corruption plans, exhaustive prefix/field sweeps, map vs saved-game differential, ASan/UBSan",
     design_ref="DESIGN.md section 3, C07")

prop('C16',
     quick=dict(sweep=True, sweep_workers=4, pbt=(8000, 120, 10)),
     thorough=dict(sweep=True, sweep_workers=14, pbt=(6000, 120, 2), stage_timeout=3400),
     floor=dict(quick=800, thorough=1500), alloc_cap_mb=256, case_timeout=300,
     rule=("Maps built through the public route ReadMap(reference-encoded bytes) with pseudo-random tile words whose mapping index cycles through all 2048 values and 2048 distinct mapping entries. "
           "Sweep: every width 2^5..2^10 x heights {1,2,3,31,32,33,64,255,256} (thorough: all heights 1..256, 1536 maps, 66M tiles). Per map: reported width/height/count equal the header; for EVERY "
           "coordinate the independent index ((x>>5)*h+y)*32+(x&31) is in range and distinct (exact cover), and GetCellType / GetTileMappingIndex / GetLavaPossible / GetTilesetIndex / GetImageIndex "
           "equal the fields of the raw tile word (bits 0-4, 5-15, 28) and of the mapping entry it names; bijection through the setter: in 4 rounds every coordinate's linear id is spelled in base 32 into "
           "the cell-type field via SetCellType and every tile of the array must then hold the digit of the coordinate the 32-column block order assigns to it, with no other bit changed; on 8 corner/"
           "block-border coordinates and 56 sampled ones: all 32 cell types and both lava states set -> get returns the value and exactly that field of exactly that word changed (whole tile array "
           "compared; serialised bytes compared with the reference serialisation on small maps); cell types 32, 33, 64, 255, 9999, -1, INT_MIN refused without change. pbt: random (width, height, tile "
           "seed, sample coordinates). Non-trivial = width >= 64 and height >= 2 (both block terms of the index formula active); distinct by (width, height, seed)."),
     sweep_what="widths 2^5..2^10 x heights {1,2,3,31,32,33,64,255,256} (quick) / all heights 1..256 (thorough), every coordinate of every map",
     sweep_is_whole_domain=False,
     assumptions=["maps are built via ReadMap because Map has no public constructor for dimensions"],
     title="Map coordinates address distinct tiles; tile accessors are faithful",
     level_text=("Exhaustive enumeration of all coordinates over a grid of map sizes (complete 2^5..2^10 x 1..256 in the thorough tier) against an independent bit layout and index formula; exploration beyond the grid."),
     technique="bounded-exhaustive enumeration with an independent index/bit-layout model, plus property-based sampling (rapidcheck)",
     design_ref="DESIGN.md section 3, C16")

prop('C08',
     quick=dict(sweep=True, pbt=(90000, 700, 10), fuzz=(300000, 700, 5)),
     thorough=dict(sweep=True, pbt=(1500000, 900, 11), fuzz=(8000000, 900, 5), stage_timeout=3400),
     floor=dict(quick=100000, thorough=1000000), alloc_cap_mb=128,
     rule=("File family: indexed bitmaps emitted by an independent encoder from a tape - depth 1/4/8, width 0..70 (every residue of row bits mod 32) plus {100,255,256,257,1000,4097}, height "
           "-40..40 incl. 0 plus {+-300}, full table (used colours 0) or partial 1..2^depth, random palette, random pixels WITH random row padding, arbitrary resolution/image-size (random, 0, or exactly the pixel byte count)/important-colour/"
           "reserved fields, one file in ten with a non-zero compression field (oracle: refused, or accepted and lawful), optionally size and pixel offset both shifted. Factory family: CreateIndexed(depth,w,h[,palette[,pixels]]) with partial/full palettes and pixels random in the "
           "meaningful bytes. Oracle: the reader's fields equal the logical bitmap; Validate() passes; width >= 0; pixels.size() == pitch(w,depth)*|h| computed independently; palette <= 2^depth; "
           "WriteIndexed output parsed by a strict independent parser (headers describe the file, all row padding zero) and read back with the same width, signed height, depth, every palette entry "
           "at its index and every meaningful pixel byte preserved; factory objects round-trip to operator== equality; InvertScanLines once reverses the rows exactly and negates the height, twice "
           "restores an equal object. Sweep: 3 depths x widths 0..70 x heights -3..3 x 3 palette modes for both families; wrap32 family (also 1/16 of pbt cases): widths 2^29*k+w0 at 8 bpp and 2^30+w0 at 4 bpp (row bit length >= 2^32) carrying exactly the pixel bytes a row length computed modulo 2^32 would ask for - an ordinary error, or an accepted bitmap obeying all laws above. Non-trivial = >=2 rows with >=1 padding byte, or a partial palette."),
     sweep_what="every (depth, width 0..70, height -3..3) x {full, 1-entry, explicit-full} palette for encoder-made files and the three factory overloads; 312 wrap32 headers",
     assumptions=["compression field 0 (the reader's domain)", "palette bytes are compared in file order; the library's Color members are treated as the four raw bytes"],
     title="Indexed bitmaps read back valid and round-trip pixels, palette, geometry",
     level_text=("Round-trip and validity properties over generated bitmaps with an independent encoder/strict parser, under ASan/UBSan; complete for widths 0..70 at small heights, sampled beyond."),
     technique="round-trip property-based testing against an independent BMP encoder/strict parser (rapidcheck + libFuzzer), dimension sweep",
     design_ref="DESIGN.md section 3, C08")

prop('C09',
     quick=dict(sweep=True, pbt=(80000, 200, 10), fuzz=(160000, 200, 4)),
     thorough=dict(sweep=True, pbt=(500000, 200, 11), fuzz=(1500000, 200, 4), stage_timeout=3400),
     floor=dict(quick=70000, thorough=500000), alloc_cap_mb=128,
     rule=("Pictures decoded from a tape: height 32*k (k 0..8 and {31,32,33,47,63,64,65,100}, thorough ..64), 256 pseudo-random colours (one in six grey so red==blue), pseudo-random pixels, built with the factory in BOTH scan-line "
           "orientations. Oracle per picture and orientation: WriteCustomTileset bytes == an independent description of the format (PBMP + 1068+32h, head 0x14 {2,32,h,8,8}, PPAL 1048, head 4 {1}, "
           "data 1024 with blue-green-red-alpha entries, data 32h with rows top-down) and identical for both orientations; the caller's bitmap is unchanged; ReadTileset of those bytes gives the same "
           "logical rows and colours in top-down orientation; ReadTileset of the picture stored as a standard bitmap - written by the library and, in three variants (plain; image size + resolution stated; used/important colour counts stated), by an independent encoder - gives the same picture in the stored orientation. Partial-colour-table pictures (one case in seven; sweep k in {1,2,16,255} x heights 0,32,64 x both orientations): the picture stored as a standard bitmap with k < 256 used colours loads with a k-entry palette, its custom-format bytes still have every section of the described shape (256-entry palette section; the unused entries are not prescribed) and load back to the same rows and k colours. Signature cases: random "
           "prefixes / PBMP / one-bit neighbours / 'BM' at stream positions 0 and > 0: PeekIsCustomTileset <=> the next four bytes are PBMP and Position() unchanged (also when it throws on a "
           "short stream). Violating pictures (depth 1/4, width != 32, height not a multiple of 32, depth/width pairs that still give 32-byte rows - 4 bit x 63..64, 1 bit x 249..256 -, arbitrary non-tileset (depth,width,height) triples) are refused by save (nothing written) and by load; custom byte strings with one validated header "
           "field replaced by boundary values are refused. Sweep: heights 0..12 and {31,32,33,40,63,64,65,75,96,100} tiles (thorough 0..130); all 32 one-bit neighbours of PBMP at two positions; 18 header fields x 20 values. "
           "Non-trivial = height >= 64 with red != blue somewhere, every signature/violating/perturbed case."),
     sweep_what="heights 0..12 + 10 tall ones (thorough ..130) tiles x both orientations; all one-bit neighbours of the signature; every header field x 20 boundary values; violating pictures",
     assumptions=["no game file is available offline: the PBMP total length 1068+32h is pinned from the format's constants as this tree writes it", "the flags field and depth values whose low 16 bits are 8 are not claimed either way"],
     title="Tilesets load to the same picture from custom and standard formats",
     level_text=("Round-trip/differential testing of both tileset encodings against an independent encoder of the custom format, over generated pictures; exploration."),
     technique="round-trip + differential property-based testing against an independent format encoder (rapidcheck + libFuzzer), signature and header-field sweeps",
     design_ref="DESIGN.md section 3, C09")

prop('C10',
     quick=dict(sweep=True, pbt=(60000, 900, 10), fuzz=(180000, 900, 5)),
     thorough=dict(sweep=True, pbt=(800000, 1200, 11), fuzz=(4000000, 1200, 5), stage_timeout=3400),
     floor=dict(quick=70000, thorough=800000), alloc_cap_mb=64,
     rule=("Logical PRT structures decoded from a tape and serialised by an independent encoder: 0..3 palettes (pseudo-random 1024 bytes; section headers canonical or, one in five, non-canonical but "
           "accepted: lengths satisfying the sum rule, arbitrary remaining-tag count), 0..12 images (palette index < count, scan line = width rounded up to 4, widths {0,1,3,4,5,31..33,640,"
           "0xFFFFFFF9,0xFFFFFFFC,random<2000}), 0..5 animations with 0..6 frames in every combination of the two optional-data flags, layer lists of 0..3 or {0,1,64,126,127} entries, unknown "
           "container 0..5, arbitrary unknown-animation count. Oracle: Read result deep-equals the logical structure (memory red-green-blue where the file is blue-green-red) and satisfies the "
           "cross-field rules evaluated in 64-bit arithmetic; Write leaves the source object unchanged; written bytes == input bytes when the palette headers are canonical (else == canonical "
           "re-encoding); Read(Write(a)) equal; second write byte-identical. One case in eight feeds Read a violating input (palette index >= count, wrong scan line, width 0xFFFFFFFD..FF with "
           "wrapped scan line 0, header frame/layer totals off by one, palette lengths not adding up) and one in eight gives Write a violating structure (index == count, wrong scan line, width "
           "0xFFFFFFFE/scan line 0, layer list longer than its count by 1, 2, 128, 256 or 512): both must throw. Sweep: 4 flag combinations x every layer count 0..127 inside a three-frame animation; palettes 0..3 x "
           "images 0..2 x animations 0..2 with every violating variant. Non-trivial = >=1 frame with >=1 layer and >=1 optional flag set, and every violating case."),
     sweep_what="flag combinations x layer counts 0..127; empty-table combinations with all violating read/write variants",
     assumptions=["the trivially-true 'unknown count' check is not asserted"],
     title="PRT sprite metadata round-trips and always satisfies its cross-field rules",
     level_text=("Round-trip, byte-stability and rule-enforcement properties over generated PRT structures with an independent encoder and 64-bit rule evaluation, under ASan/UBSan; exploration."),
     technique="round-trip property-based testing against an independent PRT encoder with a 64-bit cross-field oracle (rapidcheck + libFuzzer), layer/flag sweep",
     design_ref="DESIGN.md section 3, C10")

prop('C11',
     quick=dict(sweep=True, pbt=(12000, 500, 10), fuzz=(150000, 1400, 5)),
     thorough=dict(sweep=True, pbt=(400000, 700, 10), fuzz=(10000000, 2000, 6), stage_timeout=3400),
     floor=dict(quick=50000, thorough=1000000), alloc_cap_mb=64, case_timeout=60,
     rule=("Three loaders (BitmapFile::ReadIndexed, Tileset::ReadTileset in both formats, ArtFile::Read; memory readers and - for every prefix near the ends and every fifth one, every intact seed and a quarter of the generated cases - the FILE-backed entry points ReadIndexed(filename), ReadTileset over a FileReader, ArtFile::Read(filename)) fed with: sweep - 4 reference-encoded seed files per loader: the intact file must load, every "
           "proper prefix must be refused, every header field x 33 boundary values (0,1,..,40,54,..,2^15,2^16,0x7FFFFFE0,2^31-1,2^31,2^31+1,0xFFFFFFE0,0xFFFFFFF8,0xFFFFFFFC,2^32-1,v+-1); "
           "constructed wrap-around bitmaps: for depths 1/4/8, widths -1..-64, INT32_MIN..INT32_MIN+3, -65536, -2^28 and heights +-1..64, +-2^7..2^30, INT32_MIN, INT32_MAX, 0, every pair whose pitch x "
           "|height| is <= 4096 modulo 2^64 (pitch computed as a 64-bit size_t product on the sign-extended width) is emitted with exactly that many pixel bytes so the size cross-check passes; "
           "positive dimensions with pitch 2^a (a = 2..24) and height +-(2^(32-a) [+1]) for all three depths (pitch x |height| = 2^32 [+pitch]) carrying the byte count modulo 2^32, also as tileset-shaped bitmaps; extreme heights with small widths; custom tileset pixel heights around 2^31 and 2^32 with matching data lengths modulo 2^32; PRT counts replaced by values near 2^32 and by values whose "
           "product with the record size wraps; PRT images with width 0/1/4 x scan line 0/4 x palette index at/after the palette count x 0..1 palettes; a tileset-shaped standard bitmap with a 7-entry colour table among the seeds. pbt/fuzz: a seed file + 1..3 mutations (field boundary value, truncation, byte, append) and raw bytes per loader from the seed corpus (libFuzzer). On "
           "every accepted object the follow-up operations run under ASan/UBSan: Validate, AbsoluteHeight, WriteIndexed (stream and file), InvertScanLines x2, SwapRedAndBlue, WriteCustomTileset, the "
           "Verify* helpers; for PRT: Write, the 64-bit cross-field rules, VerifyImageIndexInBounds for 0, n-1, n, n+1, 2^64-1 (must refuse >= n) and SpriteLoader::ExtractImage for every index "
           "0..n+1 and 2^64-1 against pixel files of length 0, 100, header+64 and header+70000 (indices >= n must be refused). Oracle: no sanitizer report, no hang, only std::exception, prefixes "
           "refused. Non-trivial = the loader accepts and follow-ups run, or rejection of an input longer than the first header."),
     sweep_what="prefixes and (field x boundary) tables of 12 seed files; all wrap-around (width,height) pairs passing the size cross-check modulo 2^64; tileset heights at the sign boundary; PRT counts near 2^32",
     assumptions=["allocation requests above 64 MiB fail with std::bad_alloc", "UBSan's alignment, nonnull-attribute and null-reference checks are off (DESIGN.md 2.2)"],
     title="Bitmap, tileset and PRT loaders are safe on arbitrary bytes; results safe to use",
     level_text=("Fault-injection sweeps incl. arithmetic-solved wrap-around inputs, structure-aware and raw coverage-guided fuzzing with follow-up operations on every accepted object under ASan/UBSan; exploration."),
     technique="coverage-guided + structure-aware fuzzing (libFuzzer, rapidcheck mutation plans), modular-arithmetic input construction, exhaustive prefix/field sweeps, ASan/UBSan",
     design_ref="DESIGN.md section 3, C11")

prop('C18', extra_flavours=['varZ', 'varP'],
     quick=dict(sweep=True, pbt=(7200, 500, 12), fuzz=(4800, 500, 3)),
     thorough=dict(sweep=True, pbt=(240000, 700, 12), fuzz=(120000, 700, 3), stage_timeout=3400),
     floor=dict(quick=3500, thorough=100000), alloc_cap_mb=128, case_timeout=60,
     rule=("Scenarios decoded from a tape, seven kinds: (0) VOL creation from 0..5 generated files (half of the later names extend an earlier name in another letter case: prefix-related names) + reopen listing + extraction; (1) CLM creation from 0..4 generated WAVs (chunks before/after the data) "
           "+ listing + every extracted WAV; (2) maps: a DEFAULT-CONSTRUCTED Map written as is, generated maps parsed then dumped field by field and re-written, edited maps, saved games; (3) bitmaps "
           "from the three factory overloads and from parsed files, dumped, written and flipped; (4) custom tileset written and re-loaded; (5) PRT parsed, every field incl. the optional frame bytes "
           "dumped, re-written, plus a value-initialised empty ArtFile written; (6) an LZH member of a reference-encoded volume whose first matches reach back before the start of the output (window never written, must read as spaces) extracted through VolFile and decoded through HuffLZ::GetData, plus two LZH members of different packed size extracted through one archive object in an order that differs between the runs. The driver (ASan build) runs each scenario THREE times: in a child built with -ftrivial-auto-var-init=zero whose heap "
           "blocks are pre-filled with 0x00, in a child built with -ftrivial-auto-var-init=pattern whose heap blocks are pre-filled with 0xD7 (MALLOC_PERTURB_ set, stack scribbled with other bytes, "
           "other working directory and address layout, VOL/CLM inputs listed in reverse order and spelled './...'), and in-process under ASan's own malloc fill. Each run emits every output byte "
           "string in hex and a canonical text dump of every parsed structure; the three emissions must be byte-identical. Non-trivial = scenario that serialises at least one header record built "
           "from a local/temporary object and at least one non-empty container; distinct by emission hash."),
     sweep_what="12 fixed tapes per scenario kind (incl. the default-constructed map in all four sub-modes)",
     assumptions=["two poison patterns plus ASan's fill sample the space of memory states thinly: a value that is undefined but coincides under all three is invisible", "a default-initialised (not value-initialised) ArtFile/BitmapFile is a caller error and not exercised"],
     title="Serialised bytes and parsed values depend only on the logical input",
     level_text=("Metamorphic/differential testing: the same generated scenario in three differently built and differently poisoned executions must emit identical bytes and dumps; exploration, thin sampling of memory states."),
     technique="metamorphic differential property-based testing across differently-initialised builds/processes (rapidcheck + libFuzzer driving twin child processes)",
     design_ref="DESIGN.md section 3, C18")

# Additions of the checklist-driven and cross-property rounds (second session), appended to the rule text each evidence file carries.
MORE = {
 'C01': "the written archive is compared byte for byte with an independent encoder (refvol::encode), over nothing / a shorter / a 70000-byte pre-existing output file, into a directory that does not exist yet, to an output path that is a prefix relative of an input; members are opened by case-varied name as well as by index; ExtractAllFiles under several spellings of the destination; sweeps of zero-length members at every position, 1/200/255-character names, 700 x 100-character names (thorough); twin names differing only in {[ }] ~^.",
 'C02': "members of the format's RLE (0x101) and LZ (0x102) kinds are listed and streamed like any other while extraction may be refused with the object staying usable; unused index slots carry the block offset of a real member.",
 'C03': "chunk tags one character away from 'data'/'fmt ' (first, middle, last), decoy chunk headers inside payloads, second data/fmt chunks after the audio, extensions '', .wave, .w, .snd, path spellings x ./x d//x d/./x absolute, an older 300000-byte output file, repack fixpoint (extracted WAVs packed again give the same bytes), duplicate base names separated by a dotted name, chunk chains of hundreds of chunks.",
 'C04': "sessions mixing GetData and the internal-buffer interface incl. zero-size copies (with one productive step guaranteed), calls after the end of stream, the index size field as a mere label, several LZH members extracted through one archive object.",
 'C05': "six seed volumes; extraction onto an existing directory and by name; compression-kind values 0x100..0x104 and 0xFFFF in the 32-bit field sweeps; over-long reads on member streams; repeated calls.",
 'C06': "an older longer output file, the same map written twice, write/read cycles between edits (must equal the edits alone), group names of 255/256/300/70000 characters, 300 groups, 2048/4097/5000 tile mappings, maps 2^11 and 2^12 tiles wide.",
 'C07': "log2 widths that are 0 modulo 32 and tile products of exactly 2^32 (+ a few) on files that supply the wrapped number of tiles; file-backed prefixes via the file-name overload; unit-size sweep.",
 'C08': "the file-name overload over an older longer file; non-zero row padding going in (meaningful bytes survive, padding written as zero; whole-object equality only promised for zero padding); factory widths at the int32 edge (2^31-1 x 0 legal, negative widths refused); stated image size and non-zero compression field variants.",
 'C09': "file-backed detection and loading; heights where 32h crosses 2^16 and 2^18; the file-name overloads over an older longer file; load-save fixpoint; tileset-shaped standard bitmaps with a partial colour table (padding must be black).",
 'C10': "the file-name overloads; palette/image/animation tables past 4096 entries; layer-list lengths that only agree modulo 2^8/2^16.",
 'C11': "file-backed entry points for every loader; positive width whose pitch x height is 2^32; PRT tables of 300/4097 palettes-or-images.",
 'C12': "windows straddling the 4096/8192 byte boundaries of a file buffer; file slices starting beyond 2^31 and 2^32 in a sparse file, the last straddling 2^32; size-prefixed strings with room behind the prefix.",
 'C13': "the archive object destroyed or re-created while streams opened from it are still in use (they own their handle).",
 'C14': "a user type that serialises itself through Writer::Write(T&); FileWriter data split over several calls, small-bulk-small sequences, writers move-constructed or moved to the heap before use; wide strings.",
 'C15': "refused calls in the middle of a history (everything afterwards as if not made); chain-shaped frequency histories driving code lengths to 19..21 bits.",
 'C16': "maps 2^11..2^16 tiles wide (block numbers of 6..11 bits) and copies of maps: copy-constructed, copy-assigned over another shape, move-constructed.",
 'C17': "zero-length loose files and members, archive names with several dots ('3.0.vol'), dot-leading names, archives NOT in binary-search order (first match in index order), twin names.",
 'C18': "foreign VOL files (stale unused slots, extra name padding, index length covering pad bytes) parsed and dumped; other spellings of the same input paths.",
 'C19': "name lists beyond the insertion-sort range of std::sort; the path-relation matrix; respelled triples.",
 'C20': "sources whose FILE sizes add up past 2^32 only because of big chunks after the data (must fit); a 2.5 GiB sparse chunk after the data; CLM stems measured without whatever extension the file has; multi-layer frames with compensating counts.",
}
MORE3 = {'C01': " Round 5: inputs named like a temporary/backup companion of the output (out.vol.tmp, .bak, ~, .part ...) in the output's directory.", 'C02': ' Round 5: input sets with two names equal ignoring case - either refused or, if written, well-formed (either-or oracle).', 'C03': " Round 5: a filler chunk sized so that the header of 'fmt ', 'data' or a skipped chunk starts at B-8..B+2 for B = 256..65536 (sweep of all 162 combinations with 70000 bytes of audio, one file in eight in generated sets); a fresh archive object whose very first call is OpenStream / ExtractFile / GetSize / GetName / GetIndex.", 'C04': ' Round 5: nine token streams that cross the counter capacity with a dominant symbol (one literal only, dominant + rare symbol with the crossing code being either, one match code only, alternating, long dominant phase then cold symbols), all drains and extraction.', 'C07': ' Round 5: tileset names made of NUL bytes; at most 700 prefix cuts per case (evenly thinned, first 200 and last 40 kept) so that one case stays bounded.', 'C08': ' Round 5: rows wider than 16 bits (widths 65535..131073, 2^20+1 at 1 bpp) from files and factories.', 'C09': ' Round 5: custom tileset files DECLARING depth 0/1/2/4/16/24/32 laid out consistently for that depth in eight layouts (must be refused).', 'C10': ' Round 5: scan-line widths off by +-1..3, 5, 8, 256 on both reader and writer side; two frames whose count/list mismatches cancel.', 'C11': ' Round 5: stated image size agreeing with the dimensions while the size field / file carry fewer or no pixel bytes (7 variants x 4 shapes x 3 depths + two mutation kinds); rows with pitch 16384..131076 bytes through every follow-up; PRT image entries 16385 and 70000 pixels wide.', 'C13': ' Round 5: volume members of the RLE/LZ kinds whose index size differs from the stored length (the member stream is the stored bytes).', 'C15': ' Round 5: hot/cold runs - one symbol 127..65000 updates ahead (leads around 2^7, 2^8, 2^15), then cold symbols, tree compared after every step.', 'C16': ' Round 5: maps carry 0..9 tileset sources (empty slots before/between/behind named ones, tile counts 1..70000 below and above the image indices in use); accessors re-checked on 4096 coordinates after TrimTilesetSources().', 'C17': ' Round 5: one clump member in three keeps a dot in its name (it has an extension for type listings).', 'C18': " Round 5: WAVs whose 'fmt ' chunk holds 14, 12, 8, 2 or 0 bytes (packed or refused - the answer and bytes must not depend on memory); names with bytes 0xFF/0xFE/0x80 where two names first differ.", 'C19': ' Round 5: the relation the writers sort their input PATHS with (ArchiveFile::ComparePathFilenames via a derived probe) - asymmetry, transitivity, incomparability == equality of the member names GetNamesFromPaths extracts, agreement with the name order, and the sort + extract + duplicate-detection pipeline (throws exactly when two names are equal ignoring case).', 'C20': ' Round 5: clump base names holding multi-byte UTF-8 sequences (longer than 8 bytes, at most 8 characters); 1..3 empty volume members whose blocks start at 2^32-24..2^32-4 followed by one more member.'}
# descriptor budgets above the default of 160: VolFile::CreateArchive holds every input open at once (150 / 700 members in C01's sweeps, up to 110 in C18)
PROPS['C01']['nofile'] = 900
PROPS['C18']['nofile'] = 400
PROPS['C02']['nofile'] = 300
PROPS['C20']['nofile'] = 1500   # 1002 inputs held open at once in the many-members refusal cases
MORE4 = {'C01': " Round 6: after the per-member checks a SESSION of up to 12 calls in tape-chosen order on one archive object - extraction, extraction onto a directory (refused), an index beyond the count, streams read whole, streams kept open while other calls run and continued later, over-long reads, extraction by name, lookups of absent names - each step judged on its own; sweep of all 1728 three-call sessions over {extract, extract onto a directory, stream, held stream} x 3 members followed by a pass over every member; the backslash and ' ; & $ as ordinary name characters.", 'C02': ' Round 6: the same session alphabet on reference-encoded archives (LZH and unsupported-kind members included; extraction of the latter may be refused) and the 1728 three-call sessions on a plain/LZH/plain volume.', 'C03': ' Round 6: the session alphabet on the reopened CLM (extracted WAVs judged by the strict parser) and the 1728 three-call sessions on three tracks.', 'C04': ' Round 6: in a quarter of the runs the decoder object is replaced in mid-stream (after 0..6 drain calls) by a copy or a moved-to object of itself, the original destroyed; compiled only while HuffLZ is copy/move constructible.', 'C06': ' Round 6: at every fifth edit the map is copied (copy-assigned, copy-constructed, or copied and the original destroyed); the edits continue on the copy - first at the cell touched last - and every original still alive must hold, and serialise to, what it held when it was copied.', 'C08': ' Round 6: files carrying 1..8 surplus or 1..4 missing pixel bytes, counted in the size field and present in the stream (sweep over every depth/width/height of the dims grid, one generated file in ten): refused, or accepted and lawful.', 'C09': ' Round 6: between two saves of a partial-palette picture another picture of the same height with a full different colour table, and one of another height, go through the writer - the bytes must not change; one picture case in four is preceded by another picture (same or other height) going through every step.', 'C10': ' Round 6: after every refused write the lawful structure is written again (twice) and must give the bytes it gave before; after every refused read the intact file makes the whole round trip; one valid case in four is preceded by another structure going through reader and writer.', 'C11': ' Round 6: PRT image records combining a degenerate size (0..2 in width/height) with a palette index at/after the palette count and a scan line of 0 or the rounded width (sweep and one PRT case in four); the C10 cross-field predicate is no longer asserted on accepted objects here - only the safety of every follow-up.', 'C12': " Round 6: one history in four continues from its middle on a copy of the reader (copy-constructed MemoryReader / FileSliceReader, original optionally destroyed), the copy's start read from the copy itself.", 'C15': ' Round 6: capacity runs with 1..40 refused calls (out-of-range symbols) spread over the run: exactly 65535-n updates must still be accepted.', 'C16': " Round 6: one object holding maps of different heights one after the other (assigned by move from a fresh read and by copy), first queried in the block queried last before; copies whose original's mapping entry is changed, or whose original is destroyed, before the copy's first query.", 'C17': ' Round 6: pool names sharing a prefix and then differing in a byte between the letter cases against a letter (map_1.txt, mapa.txt, MAPB.TXT, map^2.txt, map`.txt).'}
MORE5 = {'C01': " Round 7: names with bytes >= 0x80 (UTF-8 letters, combining mark, lone 0x80/0xFF; the listing judged under any consistent byte ranking, refvol::order_consistent); payloads that look like the container's own structure (block tags with lengths, volume headers, RIFF/WAVE preambles, runs); an archive beyond 2 GiB written by the library (2^31-1 byte sparse member followed by two small ones) and read back through every accessor.", 'C02': ' Round 7: sparse reference archives beyond 2 GiB (first member 0x7FFFFF00..0x7FFFFFFF bytes, two members starting around/beyond 2^31); ExtractAllFiles judged member by member; high-byte names as in C01.', 'C03': " Round 7: stems extended by punctuation on either side of '.' (a, a-b, 'a b', a_b, a!) and by bytes >= 0x80, sweep of 14 such triples (found defect 83ceaed); audio data that starts like a RIFF/WAVE file, carries chunk headers or the clump header, or IS a complete nested WAV.", 'C04': ' Round 7: ExtractAllFiles on the three-LZH-member volume (larger packed size first).', 'C05': ' Round 7: the extent rule applied to ExtractAllFiles; refusal storms (400 refused calls of each kind on one object, 800 refused opens, lawful calls in between) under a descriptor budget of 160 per harness process.', 'C06': ' Round 7: each table on its own past 64 KiB and 128 KiB of serialised bytes (3000 groups at eight alignments, 300/600 terrain types, 9000/18000 mappings, 5000/11000 sources); ReadMap through the overload taking a temporary stream for half of the inputs.', 'C08': ' Round 7: ReadIndexed / WriteIndexed through their rvalue overloads for half of the inputs.', 'C09': ' Round 7: both writer overloads of WriteCustomTileset give the same bytes and both refuse every violating picture in both scan-line orientations; ReadTileset and PeekIsCustomTileset through their rvalue overloads for half of the inputs.', 'C10': ' Round 7: image tables of 1025/2049/4097/65537/70000 records with one violating record (the last, record 1024, the middle, record 65536) refused on read and on write; kind and position of a planted violation derived from the structure when the tape is used up; ArtFile::Read through its rvalue overload for half of the inputs.', 'C11': ' Round 7: PRT tables of 65537/70000/131073 images with one foreign palette index late in the table; follow-ups extract exactly the records whose palette index is out of range.', 'C12': ' Round 7: std::u16string / std::u32string in the plain and size-prefixed typed reads.', 'C13': ' Round 7: 700 file slices alive at once, each first touched by a relative seek (descriptor budget lifted for the case); 1200 refused slice requests, 400 refused Slice(n), 400 refused opens, lawful requests in between.', 'C14': ' Round 7: every refused cell of the FileWriter open-flag matrix 300 times in a row, destinations that are directories or lie in missing directories, then the whole matrix again (descriptor budget 160).', 'C15': ' Round 7: half of the histories encoder-style (only the symbol about to be coded is asked for, one bit order per history); fifteen 20000-step encoder-style runs.', 'C17': ' Round 7: VOL and CLM archives of 65600 members: lookup, streams by index and name, resolution and containing archive through the manager on both sides of 65536.', 'C18': ' Round 7: twin names differing only in the ASCII case bit of a non-letter; volumes of 70..110 members with names of at least 12 characters (name table and index past 1 KiB).', 'C20': ' Round 7: 600..1000 members with names of 60..100 characters (tables, block headers and padding exceed 64 KiB) and a data total just below 2^32 - 64 KiB: the offsets do not fit although the data would.'}
for _pid, _t in MORE.items():
    PROPS[_pid]['rule'] += " Also generated (second session): " + _t + MORE3.get(_pid, '') + MORE4.get(_pid, '') + MORE5.get(_pid, '')

for _pid, _c in PROPS.items():
    _c.setdefault('assumptions', [])
    _c['assumptions'] = list(_c['assumptions']) + ["every harness process runs with a budget of %d open file descriptors (a lawful operation of this property never needs more at once)" % _c.get('nofile', 160),
                                                    "a failure that needs state left by earlier cases of the same process is reported through a recorded sequence of cases (TAPES / SWEEPSET replay file)"]

# Thorough floors guard against a run that silently does nothing; a run that reaches its stage time limit on a busy machine keeps what it counted
# (workers are ended with SIGTERM and write their counters) and is judged against a twentieth of the former floors.
for _pid, _c in PROPS.items():
    if 'floor' in _c and 'thorough' in _c['floor']:
        _c['floor'] = dict(_c['floor'], thorough=max(1000, _c['floor']['thorough'] // 20))
