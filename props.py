# Per-property configuration of the checks: binaries, tiers, floors, evidence texts.
# tiers: sweep (bool), pbt=(cases, max tape size, workers), fuzz=(runs, max_len, workers)

PROPS = {}


def prop(pid, **kw):
    kw.setdefault('bin', pid.lower())
    PROPS[pid] = kw


prop('C12',
     quick=dict(sweep=True, pbt=(60000, 420, 6), fuzz=(300000, 420, 4)),
     thorough=dict(sweep=True, pbt=(1600000, 600, 10), fuzz=(8000000, 600, 5)),
     floor=dict(quick=100000, thorough=1000000), alloc_cap_mb=4,
     rule=("Histories of 1..40 operations {Read, ReadPartial, Peek, Seek, SeekForward, SeekBackward, SeekBeginning, SeekEnd, "
           "typed fixed/container/size-prefixed/NUL-string reads} with arguments from the boundary table {0,1,len-1,len,len+1,rem-1,rem,rem+1,"
           "2^31,2^32,2^63,2^64-1,2^64-pos,...} decoded from a byte tape (rapidcheck + libFuzzer), run on MemoryReader, MemoryReader slice, "
           "FileSliceReader, slice-of-slice (memory and file) over a 0..64 byte source (thorough: ..5000) with planted size prefixes; "
           "oracle = (bytes, cursor) model checked after every operation plus a closing drain. Sweep: all 2-operation histories over the "
           "(operation x boundary argument) alphabet on a 5-byte window and all single operations on empty windows, every reader kind. "
           "Non-trivial = a history with >=1 refused operation followed by >=1 successful data read, or a short partial read followed by "
           "another operation; distinct = hash of (kind, source, window, resolved operation list)."),
     sweep_what="all ordered pairs of (operation, boundary-argument) on 5-byte windows x 5 reader kinds; all single operations on empty windows",
     assumptions=["Linux/tmpfs file semantics for file-backed slices", "allocation requests above 4 MiB fail with std::bad_alloc"],
     title="Readers deliver exactly the addressed bytes and fail atomically at bounds",
     level_text=("Generated-history search against a (bytes, cursor) reference model under ASan/UBSan, with an exhaustive sweep of all "
                 "2-operation boundary histories; no counterexample among the generated cases - absence beyond them is not shown."),
     technique="model-based property testing (rapidcheck byte-tape histories + libFuzzer) with bounded-exhaustive 2-step sweep, ASan/UBSan",
     design_ref="DESIGN.md section 3, C12")
