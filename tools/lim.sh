#!/bin/bash
# usage: tools/lim.sh <mem-GiB> <cmd...> : run a command inside a memory cgroup (development aid, not used by registered checks)
g=/sys/fs/cgroup/memory/verif-$1g
mkdir -p $g 2>/dev/null
echo $(( $1 * 1024 * 1024 * 1024 )) > $g/memory.limit_in_bytes 2>/dev/null
echo $$ > $g/cgroup.procs 2>/dev/null
shift
exec "$@"
