#!/bin/bash
# usage: seed_setup.sh C19 ... : create scratch worktrees + property text for seeding sub-agents
for id in "$@"; do
  git -C /repo worktree add --detach /tmp/wt-$id HEAD >/dev/null 2>&1
  mkdir -p /tmp/seed-$id
  python3 - "$id" <<'PY'
import json,sys
for l in open('/verif/properties.jsonl'):
    p=json.loads(l)
    if p['id']==sys.argv[1]:
        open('/tmp/seed-%s/property.txt'%p['id'],'w').write(p['title']+'\n\n'+p['statement']+'\n\nQuantified over: '+p['quantifier']['text']+'\n\nRelevant code: '+', '.join(p['anchors']['files'])+'\n')
PY
done
git -C /repo worktree list
