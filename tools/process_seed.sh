#!/bin/bash
# usage: tools/process_seed.sh <PROP> <X> [tier]   (seed dir /tmp/seed-<PROP>/<X>, worktree /tmp/wt-<PROP>)
# 1. confirm the seeded change (tests pass with it, demo fails with / passes without); 2. run the property's check against it
id=$1; x=$2; tier=${3:-quick}
sd=/tmp/seed-$id/$x
echo "== $id/$x"
/verif/tools/verify_seed.sh /tmp/wt-$id $sd 2>&1 | tail -2
/verif/tools/mutant_run.sh $sd/patch.diff $id $tier 2>&1 | tail -6
