#!/usr/bin/env python3
"""usage: keep_suite.py <suite_seed log>...  -- files cross-property seeds under /verif/seeded/suite/<area>/<X>/"""
import sys, re, json, subprocess, os, shutil
head = subprocess.run(['git', '-C', '/repo', 'rev-parse', '--short', 'HEAD'], capture_output=True, text=True).stdout.strip()
for lf in sys.argv[1:]:
    log = open(lf, errors='replace').read()
    for b in re.split(r'^== ', log, flags=re.M)[1:]:
        hd = b.splitlines()[0].strip()
        if not re.match(r'^S\d+/[A-Z]$', hd): continue
        area, x = hd.split('/')
        if 'SEED CONFIRMED' not in b: print(hd, 'NOT CONFIRMED - skipped'); continue
        sd = '/tmp/seed-%s/%s' % (area, x); dst = '/verif/seeded/suite/%s/%s' % (area, x)
        os.makedirs(dst, exist_ok=True)
        for f in ('patch.diff', 'demo.cpp', 'notes.md'):
            if os.path.exists(os.path.join(sd, f)): shutil.copy(os.path.join(sd, f), dst)
        named = re.search(r'^NAMED (.*)$', b, flags=re.M)
        named = named.group(1).split() if named else []
        res = {}
        for m in re.finditer(r'^  (C\d\d) exit=(\d+) ?(.*)$', b, flags=re.M):
            res[m.group(1)] = {'exit': int(m.group(2)), 'detected': m.group(2) == '1', 'first_report': m.group(3)[:300]}
        det = [p for p, r in res.items() if r['detected']]
        meta = {'area': area, 'variant': x, 'breaks_according_to_author': named, 'breaks': 'see notes.md',
                'origin': 'independent sub-agent given the twenty property statements and a code area; asked for a change in that area that breaks at least one property, ideally one anchored elsewhere',
                'confirmed_by_me': 'tools/verify_seed.sh: patch applies, 141 tests PASSED with the change, demo.cpp fails with it and passes without it',
                'check_run': 'tools/suite_seed.sh: quick tier of every property named in notes.md and of every property anchored in a touched file, each against a scratch copy with the patch',
                'results': res, 'detected_by': det, 'detected_by_some_quick_check': bool(det), 'repo_head_when_run': head}
        json.dump(meta, open(os.path.join(dst, 'meta.json'), 'w'), indent=1)
        print(hd, 'named', named, 'detected by', det, 'quiet:', [p for p, r in res.items() if not r['detected']])
