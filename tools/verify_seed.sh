#!/bin/bash
# usage: tools/verify_seed.sh <worktree> <seed-dir-with-patch.diff-and-demo.cpp>
# Confirms a seeded change: applies it in the scratch worktree, unit tests must still pass (141), the demonstration
# must fail with the change and pass without it.  Leaves the worktree clean.
wt=$1; sd=$(readlink -f $2)
cd $wt || exit 2
git checkout -q -- . ; git apply --check $sd/patch.diff || { echo "PATCH DOES NOT APPLY"; exit 2; }
git apply $sd/patch.diff
make -j16 >/dev/null 2>&1 || { echo "BUILD FAILED with change"; git checkout -q -- .; exit 2; }
tests=$(make -k check 2>&1 | grep -E "PASSED|FAILED" | tr '\n' ' ')
demo_build() { g++ -std=c++17 -I$wt/src $sd/demo.cpp $wt/libOP2Utility.a -lstdc++fs -lpthread -o $sd/demo.bin 2>$sd/demo.build.log; }
demo_build || { echo "DEMO BUILD FAILED (see $sd/demo.build.log)"; }
( cd $sd && timeout 120 ./demo.bin >/dev/null 2>&1 ); with=$?
git checkout -q -- . ; make -j16 >/dev/null 2>&1
demo_build; ( cd $sd && timeout 120 ./demo.bin >/dev/null 2>&1 ); without=$?
rm -f $sd/demo.bin
echo "tests_with_change: $tests | demo_exit_with_change=$with demo_exit_without=$without"
[ "$with" != 0 ] && [ "$without" = 0 ] && echo "SEED CONFIRMED" || echo "SEED NOT CONFIRMED"
