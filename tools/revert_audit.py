#!/usr/bin/env python3
"""For every 'fixed' finding: revert its fix in a scratch copy of /repo, run the property's quick check against the copy
(it must report a VIOLATION), and keep the minimal failing replay file as regression tape replay/<id>/fixed-<commit>.<ext>.
usage: tools/revert_audit.py [commit ...]"""
import json, os, subprocess, sys, shutil, tempfile, hashlib, glob
V = '/verif'
rows = [json.loads(l) for l in open(V + '/known_findings.jsonl')]
want = set(sys.argv[1:])
summary = []
for r in rows:
    if r['status'] != 'fixed' or (want and r['commit'] not in want):
        continue
    pid, c = r['property'], r['commit']
    d = tempfile.mkdtemp(prefix='op2rev.', dir='/tmp')
    try:
        shutil.copytree('/repo/src', d + '/src')
        diff = subprocess.run(['git', '-C', '/repo', 'diff', c, c + '~1', '--', 'src'], capture_output=True, text=True).stdout
        open(d + '/revert.diff', 'w').write(diff)
        a = subprocess.run(['patch', '-s', '-p1', '-d', d, '-i', d + '/revert.diff'], capture_output=True, text=True)
        if a.returncode != 0:
            summary.append((pid, c, 'REVERT DOES NOT APPLY: ' + (a.stdout + a.stderr)[:200])); continue
        env = dict(os.environ, VERIF_REPO=d)
        p = subprocess.run(['python3', V + '/check.py', pid, '--tier', 'quick'], env=env, capture_output=True, text=True)
        key = 'alt-' + hashlib.sha1(os.path.abspath(d).encode()).hexdigest()[:10]
        viol = [l for l in p.stdout.splitlines() if l.startswith('VIOLATION')]
        if p.returncode == 1 and viol:
            path = viol[0].split('replay=')[1].strip()
            os.makedirs('%s/replay/%s' % (V, pid), exist_ok=True)
            dst = '%s/replay/%s/fixed-%s.tape' % (V, pid, c)
            shutil.copy(path, dst)
            summary.append((pid, c, 'DETECTED -> ' + dst + ' (' + str(os.path.getsize(dst)) + ' bytes)'))
        else:
            summary.append((pid, c, 'NOT DETECTED (exit %d)' % p.returncode))
        shutil.rmtree(V + '/build/' + key, ignore_errors=True)
        for g in glob.glob('%s/out/%s/*-%s' % (V, pid, key)):
            shutil.rmtree(g, ignore_errors=True)
    finally:
        shutil.rmtree(d, ignore_errors=True)
for s in summary:
    print(*s)
