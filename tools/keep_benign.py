#!/usr/bin/env python3
"""usage: keep_benign.py <process_benign log>...  -- files behaviour-preserving changes under /verif/seeded/benign/<id>/<X>/"""
import sys, re, json, subprocess, os, shutil
head = subprocess.run(['git', '-C', '/repo', 'rev-parse', '--short', 'HEAD'], capture_output=True, text=True).stdout.strip()
for lf in sys.argv[1:]:
    log = open(lf, errors='replace').read()
    for b in re.split(r'^== ', log, flags=re.M)[1:]:
        hd = b.splitlines()[0].strip(); pid, x = hd.split('/')
        sd = '/tmp/seed-%s/%s' % (pid, x)
        dst = '/verif/seeded/benign/%s/%s' % (pid, x)
        os.makedirs(dst, exist_ok=True)
        for f in ('patch.diff', 'notes.md', 'check.cpp', 'patch_rebased.diff'):
            if os.path.exists(os.path.join(sd, f)): shutil.copy(os.path.join(sd, f), dst)
        m = re.search(r'^exit=(\d+)', b, flags=re.M)
        rc = int(m.group(1)) if m else -1
        quiet = rc == 0 and 'VIOLATION property=' not in b
        meta = {'property': pid, 'variant': x, 'kind': 'behaviour-preserving change (refactoring / optimisation / hardening); the property still holds',
                'origin': 'independent sub-agent given only the property text and a scratch worktree, asked for a legitimate change that keeps the property',
                'confirmed_by_me': 'tools/process_benign.sh: patch applies, make -k check -> 141 tests PASSED with the change, its own check.cpp exits 0 with and without the change: ' + ('yes' if 'BENIGN CONFIRMED' in b else 'NO'),
                'check_run': 'tools/mutant_run.sh <patch> %s (quick tier against a scratch copy of /repo with the patch applied)' % pid,
                'expected': 'exit 0, no VIOLATION line', 'check_stayed_quiet': quiet, 'exit': rc, 'repo_head_when_run': head}
        json.dump(meta, open(os.path.join(dst, 'meta.json'), 'w'), indent=1)
        print(hd, 'quiet' if quiet else 'NOT QUIET rc=%d' % rc)
