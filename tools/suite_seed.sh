#!/bin/bash
# usage: tools/suite_seed.sh <AREA> <X>   (seed dir /tmp/seed-<AREA>/<X>, worktree /tmp/wt-<AREA>)
# Cross-property seed: confirm it, then run the quick check of every property the seed's notes name and of every property
# anchored in a file the patch touches.
a=$1; x=$2; sd=/tmp/seed-$a/$x
echo "== $a/$x"
/verif/tools/verify_seed.sh /tmp/wt-$a $sd 2>&1 | tail -2
props=$(python3 - "$sd" <<'PY'
import json,re,sys
sd=sys.argv[1]
touched=set(re.findall(r'^\+\+\+ b/(\S+)',open(sd+'/patch.diff').read(),flags=re.M))
named=set(re.findall(r'\bC(?:0[1-9]|1[0-9]|20)\b',open(sd+'/notes.md').read()))
sel=set(named)
for l in open('/verif/properties.jsonl'):
    p=json.loads(l)
    if touched & set(p['anchors']['files']): sel.add(p['id'])
print(' '.join(sorted(sel)))
print('NAMED '+' '.join(sorted(named)),file=sys.stderr)
PY
)
echo "properties to run: $props"
for p in $props; do
  out=$(/verif/tools/mutant_run.sh $sd/patch.diff $p quick 2>&1 | tail -4)
  rc=$(echo "$out" | grep -o "exit=[0-9]*" | tail -1)
  echo "  $p $rc $(echo "$out" | grep -E '^(violation|sanitizer|timeout):' | head -1 | cut -c1-220)"
done
