#!/usr/bin/env python3
"""usage: keep_seed.py <PROP> <X> <seed-dir> <detected: yes/no> <needs text> [check summary]"""
import sys, os, shutil, json, subprocess
pid, x, sd, det, needs = sys.argv[1:6]
summary = sys.argv[6] if len(sys.argv) > 6 else ''
dst = os.path.join('/verif/seeded', pid, x)
os.makedirs(dst, exist_ok=True)
for f in os.listdir(sd):
    if f in ('patch.diff', 'demo.cpp', 'notes.md') or f.endswith(('.cpp', '.sh', '.md')) and os.path.getsize(os.path.join(sd, f)) < 200000:
        shutil.copy(os.path.join(sd, f), dst)
head = subprocess.run(['git', '-C', '/repo', 'rev-parse', '--short', 'HEAD'], capture_output=True, text=True).stdout.strip()
meta = {
 'property': pid, 'variant': x,
 'breaks': 'see notes.md',
 'needs_to_manifest': needs,
 'origin': 'independent sub-agent given only the property text and a scratch worktree',
 'confirmed_by_me': 'tools/verify_seed.sh: patch applies to a scratch worktree, make -k check -> 141 tests PASSED with the change, demo.cpp exits non-zero with the change and 0 without it',
 'check_run': 'tools/mutant_run.sh %s/patch.diff %s (quick tier against a scratch copy of /repo with the patch applied; VERIF_REPO)' % (dst, pid),
 'detected_by_quick_check': det == 'yes',
 'detection_summary': summary,
 'repo_head_when_run': head,
}
json.dump(meta, open(os.path.join(dst, 'meta.json'), 'w'), indent=1)
print('kept', dst)
