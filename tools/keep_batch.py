#!/usr/bin/env python3
"""usage: keep_batch.py <process_seed log> [extra note]  -- files every confirmed seed of the log under /verif/seeded/<id>/<X>/"""
import sys, re, json, subprocess, os
log = open(sys.argv[1], errors='replace').read()
note = sys.argv[2] if len(sys.argv) > 2 else ''
needs = json.load(open('/verif/tools/seed_needs.json'))
blocks = re.split(r'^== ', log, flags=re.M)[1:]
for b in blocks:
    head = b.splitlines()[0].strip()
    pid, x = head.split('/')
    if 'SEED CONFIRMED' not in b:
        print(head, 'NOT CONFIRMED - skipped'); continue
    m = re.search(r'^exit=(\d+)', b, flags=re.M)
    rc = int(m.group(1)) if m else -1
    det = 'yes' if rc == 1 and 'VIOLATION property=' in b else 'no'
    msg = ''
    mm = re.search(r'^(violation|sanitizer|timeout): (.*)$', b, flags=re.M)
    if mm: msg = (mm.group(1) + ': ' + mm.group(2))[:400]
    summary = ('caught by the quick check: ' + msg) if det == 'yes' else ('MISSED by the quick check (exit=%d)' % rc)
    if note: summary += ' | ' + note
    subprocess.run(['python3', '/verif/tools/keep_seed.py', pid, x, '/tmp/seed-%s/%s' % (pid, x), det, needs.get(head, 'see notes.md'), summary])
    print(head, det, msg[:150])
