#!/bin/bash
# usage: tools/rerun_seeds.sh <log> <PROP/X>...   re-runs the quick check of each kept seeded change's property against the change
# (patch taken from /verif/seeded/<PROP>/<X>/patch.diff) and appends a block per seed to <log>; tools/note_final.py files the verdicts.
log=$1; shift
for s in "$@"; do
  id=${s%/*}; x=${s#*/}
  echo "== $id/$x" >> $log
  pf=/verif/seeded/$id/$x/patch_rebased.diff; [ -f $pf ] || pf=/verif/seeded/$id/$x/patch.diff   # rebased onto a later repair where the original no longer applies
  timeout 3000 /verif/tools/mutant_run.sh $pf $id quick 2>&1 | tail -6 >> $log
done
