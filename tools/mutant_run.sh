#!/bin/bash
# usage: tools/mutant_run.sh <patch-file> <PROP> [tier]
# Applies a patch to a scratch copy of /repo (outside /repo and /verif), runs the property's check against it
# (VERIF_REPO), prints the verdict and removes the copy together with its build output.
set -u
patch=$(readlink -f "$1"); prop=$2; tier=${3:-quick}
d=$(mktemp -d /tmp/op2mut.XXXXXX)
cp -r /repo/src "$d/src"
( cd "$d" && git init -q . >/dev/null 2>&1; git apply --unsafe-paths -p1 "$patch" 2>/dev/null || patch -s -p1 < "$patch" ) || { echo "PATCH FAILED"; rm -rf "$d"; exit 3; }
key=alt-$(python3 -c "import hashlib,os,sys;print(hashlib.sha1(os.path.abspath(sys.argv[1]).encode()).hexdigest()[:10])" "$d")
VERIF_REPO="$d" python3 /verif/check.py "$prop" --tier "$tier" > "$d/out.txt" 2>&1
rc=$?
grep -E "^VIOLATION|^\[C|^ERROR|BUILD FAILED" "$d/out.txt" | head -5
grep -E "^(violation|sanitizer|timeout):" "$d/out.txt" | head -2 | cut -c1-300
echo "exit=$rc"
rm -rf "$d" "/verif/build/$key" /verif/out/$prop/*-$key
exit $rc
