#!/bin/bash
# usage: tools/process_benign.sh <PROP> <X>   (dir /tmp/seed-<PROP>/<X> with patch.diff + check.cpp, worktree /tmp/wt-<PROP>)
# A behaviour-preserving change: unit tests pass with it, its check.cpp passes with and without it; then the property's quick check is
# run against it and must stay quiet (exit 0).
id=$1; x=$2; sd=/tmp/seed-$id/$x; wt=/tmp/wt-$id
echo "== $id/$x"
cd $wt || exit 2
git checkout -q -- . ; git apply --check $sd/patch.diff || { echo "PATCH DOES NOT APPLY"; exit 2; }
git apply $sd/patch.diff
make -j8 >/dev/null 2>&1 || { echo "BUILD FAILED with change"; git checkout -q -- .; exit 2; }
tests=$(make -k check 2>&1 | grep -E "PASSED|FAILED" | tr '\n' ' ')
cb() { g++ -std=c++17 -I$wt/src $sd/check.cpp $wt/libOP2Utility.a -lstdc++fs -lpthread -o $sd/check.bin 2>$sd/check.build.log; }
cb || echo "CHECK.CPP BUILD FAILED"
( cd $sd && timeout 120 ./check.bin >/dev/null 2>&1 ); with=$?
git checkout -q -- . ; make -j8 >/dev/null 2>&1
cb; ( cd $sd && timeout 120 ./check.bin >/dev/null 2>&1 ); without=$?
rm -f $sd/check.bin
echo "tests_with_change: $tests | check_exit_with_change=$with check_exit_without=$without"
[ "$with" = 0 ] && [ "$without" = 0 ] && echo "BENIGN CONFIRMED (by its own check)" || echo "BENIGN NOT CONFIRMED"
/verif/tools/mutant_run.sh $sd/patch.diff $id quick 2>&1 | tail -6
