#!/usr/bin/env python3
"""usage: note_final.py <rerun log> [note]  -- records in each seed's meta.json whether the final harness reports it (field final_run)"""
import sys, re, json, subprocess
log = open(sys.argv[1], errors='replace').read()
note = sys.argv[2] if len(sys.argv) > 2 else ''
head = subprocess.run(['git', '-C', '/verif', 'rev-parse', '--short', 'HEAD'], capture_output=True, text=True).stdout.strip()
ok = miss = 0
for b in re.split(r'^== ', log, flags=re.M)[1:]:
    hd = b.splitlines()[0].strip(); pid, x = hd.split('/')
    m = re.search(r'^exit=(\d+)', b, flags=re.M); rc = int(m.group(1)) if m else -1
    det = rc == 1 and 'VIOLATION property=' in b
    mm = re.search(r'^(violation|sanitizer|timeout): (.*)$', b, flags=re.M)
    p = '/verif/seeded/%s/%s/meta.json' % (pid, x)
    meta = json.load(open(p))
    meta['final_run'] = {'detected_by_quick_check': det, 'exit': rc, 'first_report': (mm.group(0)[:300] if mm else ''), 'verif_commit': head, 'note': note}
    json.dump(meta, open(p, 'w'), indent=1)
    ok += det; miss += (not det)
    if not det: print('NOT DETECTED', hd, rc)
print('detected', ok, 'missed', miss)
