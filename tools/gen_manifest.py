#!/usr/bin/env python3
"""Regenerate /verif/MANIFEST.json from props.py (claimed checks) and properties.jsonl (everything else -> not_applicable)."""
import json, os, sys, subprocess
V = os.path.dirname(os.path.dirname(os.path.abspath(__file__)))
sys.path.insert(0, V)
from props import PROPS
ids = [json.loads(l)['id'] for l in open(os.path.join(V, 'properties.jsonl'))]
pending_reason = {}
pr = os.path.join(V, 'tools', 'not_applicable.json')
if os.path.exists(pr):
    pending_reason = json.load(open(pr))
def hook_commits():
    return []
m = {
 "version": 1,
 "setup_cmd": "python3 check.py --setup",
 "hooks": {"guard": "OP2UTILITY_VERIF",
           "enable": "no hooks are needed: every property is observable through the public API and the bytes on disk; checks compile /repo/src out of tree (clang, ASan+UBSan, -DOP2UTILITY_VERIF is accepted but unused) - see DESIGN.md 2.2",
           "baseline_off_cmd": "make -C /repo -k check", "source_commits": hook_commits(), "add_only": True},
 "engines": [
  {"name": "tape-harness", "path": "/verif/harness", "serves_properties": sorted(PROPS), "kind_free_text": "per-property C++ harness: byte tape -> structured case -> reference model/oracle; driven by rapidcheck (random + shrinking), libFuzzer (coverage-guided) and deterministic sweeps under ASan/UBSan"},
  {"name": "check.py", "path": "/verif/check.py", "serves_properties": sorted(PROPS), "kind_free_text": "driver: incremental out-of-tree build of /repo working tree, parallel workers, 3x replay confirmation, delta-debugging minimiser, evidence writer"},
 ],
 "checks": [],
 "notes": "Technique family: property-based testing and fuzzing only (rapidcheck, libFuzzer, bounded-exhaustive sweeps). Genuine defects found and repaired are listed in /verif/known_findings.jsonl. See DESIGN.md.",
 "not_applicable": [],
}
for pid in ids:
    if pid in PROPS:
        c = PROPS[pid]
        m["checks"].append({
            "property_id": pid,
            "quick_cmd": "python3 check.py %s --tier quick" % pid,
            "thorough_cmd": "python3 check.py %s --tier thorough" % pid,
            "evidence_file": "/verif/evidence/%s.json" % pid,
            "replay_cmd_template": "python3 check.py %s --replay {path}" % pid,
            "engine": "tape-harness",
            "level_claimed": {"category": "exploration", "text": c["level_text"], "design_ref": c.get("design_ref", "DESIGN.md section 3")},
            "level_note": c.get("level_note", "Trusted base: the harness' reference model/oracle in /verif/harness, clang 14 ASan/UBSan runtimes, rapidcheck, libFuzzer, Linux tmpfs semantics. Exploration only: absence of violations outside the generated cases is not shown."),
            "technique": c["technique"],
        })
    else:
        m["not_applicable"].append({"property_id": pid, "reason": pending_reason.get(pid, "check not built yet (construction in progress, DESIGN.md 5a); nothing is claimed for it")})
json.dump(m, open(os.path.join(V, 'MANIFEST.json'), 'w'), indent=1)
print("claimed:", [c["property_id"] for c in m["checks"]])
