# Out-of-tree build of the code under test and the property harnesses (DESIGN.md 2.2).
# Never touches $(VERIF_REPO)/.build or libOP2Utility.a.
#   make -f build.mk FLAVOUR=san PROPS="c12 c13" [VERIF_REPO=/repo] [BUILD=/verif/build/<key>]
VERIF_REPO ?= /repo
FLAVOUR ?= san
VERIF_DIR := $(dir $(abspath $(lastword $(MAKEFILE_LIST))))
BUILD ?= $(VERIF_DIR)build/default
B := $(BUILD)/$(FLAVOUR)
CXX := clang++
RES := $(shell $(CXX) -print-resource-dir)

COMMON := -std=c++17 -g -fno-omit-frame-pointer -Wno-unknown-pragmas -I$(VERIF_REPO)/src -I$(VERIF_DIR)harness
ifeq ($(FLAVOUR),san)
  FL := -O1 -fsanitize=address,undefined,fuzzer-no-link -fno-sanitize-recover=all -fno-sanitize=alignment,nonnull-attribute,null
  LIBFL := $(FL) -D_GLIBCXX_SANITIZE_VECTOR
  LINK := -fsanitize=address,undefined $(RES)/lib/linux/libclang_rt.fuzzer_no_main-x86_64.a
  MAIN := main
endif
ifeq ($(FLAVOUR),varP)
  FL := -O1 -ftrivial-auto-var-init=pattern
  LIBFL := $(FL)
  LINK :=
  MAIN := main_plain
endif
ifeq ($(FLAVOUR),varZ)
  FL := -O1 -ftrivial-auto-var-init=zero -enable-trivial-auto-var-init-zero-knowing-it-will-be-removed-from-clang
  LIBFL := $(FL)
  LINK :=
  MAIN := main_plain
endif

SRCS := $(shell find $(VERIF_REPO)/src -name '*.cpp' | sort)
LIBOBJS := $(patsubst $(VERIF_REPO)/src/%.cpp,$(B)/lib/%.o,$(SRCS))
HOBJS := $(B)/h/$(MAIN).o $(B)/h/alloc_cap.o
BINS := $(patsubst %,$(B)/bin/%,$(PROPS))

all: $(BINS)

$(B)/lib/%.o: $(VERIF_REPO)/src/%.cpp
	@mkdir -p $(dir $@)
	$(CXX) $(COMMON) $(LIBFL) -MMD -MP -c $< -o $@

$(B)/libop2.a: $(LIBOBJS)
	@rm -f $@
	ar rcs $@ $^

$(B)/h/main.o: $(VERIF_DIR)harness/common/main.cpp $(VERIF_DIR)harness/common/verif.h
	@mkdir -p $(dir $@)
	$(CXX) $(COMMON) $(FL) -MMD -MP -c $< -o $@

$(B)/h/main_plain.o: $(VERIF_DIR)harness/common/main_plain.cpp $(VERIF_DIR)harness/common/verif.h
	@mkdir -p $(dir $@)
	$(CXX) $(COMMON) $(FL) -MMD -MP -c $< -o $@

$(B)/h/alloc_cap.o: $(VERIF_DIR)harness/common/alloc_cap.cpp
	@mkdir -p $(dir $@)
	$(CXX) $(COMMON) $(FL) -c $< -o $@

$(B)/h/%.o: $(VERIF_DIR)harness/%.cpp
	@mkdir -p $(dir $@)
	$(CXX) $(COMMON) $(LIBFL) -MMD -MP -c $< -o $@

$(B)/bin/%: $(B)/h/%.o $(HOBJS) $(B)/libop2.a
	@mkdir -p $(dir $@)
	$(CXX) $(FL) $< $(HOBJS) $(B)/libop2.a $(LINK) -lstdc++fs $(if $(filter san,$(FLAVOUR)),-lrapidcheck,) -lpthread -o $@

.SECONDARY:
-include $(shell find $(B) -name '*.d' 2>/dev/null)
